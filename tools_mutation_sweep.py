#!/usr/bin/env python3
"""Systematic sensitivity measurement (not a registered check): first-order mutants of the anchored source files.

For every sampled mutant (relational operator flipped, && <-> ||, '+ 1' / '- 1' dropped, one statement deleted) the change is
applied to a scratch worktree of /repo under /tmp, the checks that own the file are run with a reduced budget, and the first
check that exits 1 "kills" the mutant.  Survivors are then run through the repository's own test suite (a mutant the suite
kills is not interesting) and listed for analysis: each one is either equivalent / outside every property, or a blind spot.

usage: tools_mutation_sweep.py [--per-file N] [--seed S] [--budget SECONDS] [--files a.c,b.c] [--out results.json]
"""
import json, os, random, re, subprocess, sys, time, shutil

VERIF = os.path.dirname(os.path.abspath(__file__))
REPO = os.environ.get("VERIF_REPO", "/repo")
WT = "/tmp/verif_mutsweep_wt"
sys.path.insert(0, os.path.join(VERIF, "sim"))

# file -> checks that own it, the most likely killer first
FILES = {
    "src/lp/process.c": ["C03", "C05", "C06", "C01", "C20", "C10"],
    "src/gvt/fossil.c": ["C13", "C03"],
    "src/gvt/gvt.c": ["C04", "C08", "C02", "C20"],
    "src/gvt/termination.c": ["C07", "C08"],
    "src/datatypes/msg_queue.c": ["C15", "C01"],
    "src/mm/msg_allocator.c": ["C06", "C11"],
    "src/mm/buddy/multi.c": ["C12", "C05", "C13"],
    "src/mm/buddy/buddy.c": ["C12", "C05"],
    "src/mm/buddy/ckpt.c": ["C05", "C12"],
    "src/core/sync.c": ["C17"],
    "src/serial/serial.c": ["C10"],
    "src/log/stats.c": ["C20"],
    "src/lib/topology/topology.c": ["C19"],
    "src/distributed/mpi.c": ["C02", "C08"],
    "src/lp/lp.c": ["C14", "C01"],
    "src/lib/random/random.c": ["C09"],
    "src/parallel/parallel.c": ["C08", "C01"],
    "src/lp/msg.h": ["C01", "C10"],
}

for _f in FILES:  # memory safety is the last resort for every file: a mutant often just crashes
    if "C11" not in FILES[_f]:
        FILES[_f].append("C11")

REL = {"<=": "<", "<": "<=", ">=": ">", ">": ">=", "==": "!=", "!=": "=="}


def candidate_lines(path):
    """(line number, text) of lines inside function bodies that are code of the shipped build"""
    out, guard, depth, in_comment = [], 0, 0, False
    for n, line in enumerate(open(path).read().split("\n")):
        s = line.strip()
        if in_comment:
            if "*/" in s:
                in_comment = False
            continue
        if s.startswith("/*"):
            if "*/" not in s:
                in_comment = True
            continue
        if s.startswith("#"):
            if re.match(r"#\s*if(def)?\b.*(ROOTSIM_VERIF|ROOTSIM_INCREMENTAL)", s) or re.match(r"#\s*ifndef\s+NDEBUG", s):
                guard += 1  # not part of the shipped configuration
            elif guard and re.match(r"#\s*if", s):
                guard += 1
            elif guard and re.match(r"#\s*endif", s):
                guard -= 1
            continue
        opened = depth
        depth += line.count("{") - line.count("}")
        if guard or s.startswith("//") or s.startswith("*") or not s:
            continue
        if opened <= 0:
            continue
        if re.search(r"\b(log_log|logger|assert|static_assert|fprintf|printf)\b", s):
            continue
        if re.search(r"\b(timer_hr_\w+|timer_new|timer_value|auto_ckpt_register_\w+|auto_ckpt_recompute|likely|unlikely)\b\s*\(", s) and \
           s.endswith(";") and not s.startswith(("if", "while", "for")):
            continue  # performance only
        out.append((n, line))
    return out


def mutants_of(path):
    res = []
    for n, line in candidate_lines(path):
        code = line.split("//")[0]
        for m in re.finditer(r"(?<![<>=!\-+*/&|^%])(<=|>=|==|!=|<|>)(?![<>=])", code):
            if m.group(1) == ">" and code[m.start() - 1:m.start()] == "-":
                continue
            res.append((n, "rel", line[:m.start()] + REL[m.group(1)] + line[m.end():]))
        for m in re.finditer(r"&&|\|\|", code):
            res.append((n, "logic", line[:m.start()] + ("||" if m.group(0) == "&&" else "&&") + line[m.end():]))
        for m in re.finditer(r"\s[+-]\s1(?![0-9.xXuUlL])", code):
            res.append((n, "offby1", line[:m.start()] + line[m.end():]))
        s = code.strip()
        if s.endswith(";") and not s.startswith(("return", "break", "continue", "goto", "}", "case", "default")) and "(" in s and \
           not re.match(r"^(const\s+|static\s+|struct\s+\w+\s+\**\w+\s*=|unsigned|int|bool|size_t|simtime_t|uint\d+_t|array_count_t|lp_id_t|nid_t|rid_t|char|double|timer_uint)\b", s) and \
           s.count("(") == s.count(")"):
            res.append((n, "delete", line[:len(line) - len(line.lstrip())] + ";"))
    return res


def sh(cmd, **kw):
    return subprocess.run(cmd, stdout=subprocess.PIPE, stderr=subprocess.STDOUT, text=True, **kw)


def main():
    import argparse
    ap = argparse.ArgumentParser()
    ap.add_argument("--per-file", type=int, default=4)
    ap.add_argument("--seed", type=int, default=1)
    ap.add_argument("--budget", type=float, default=20)
    ap.add_argument("--files", default="")
    ap.add_argument("--out", default=os.path.join(VERIF, "mutants", "sweep_results.json"))
    ap.add_argument("--no-suite", action="store_true")
    a = ap.parse_args()
    import build as B
    rng = random.Random(a.seed)
    files = [f for f in FILES if not a.files or os.path.basename(f) in a.files.split(",")]
    sh(["git", "-C", REPO, "worktree", "remove", "--force", WT])
    shutil.rmtree(WT, ignore_errors=True)
    r = sh(["git", "-C", REPO, "worktree", "add", "--detach", WT, "HEAD"])
    if r.returncode:
        print(r.stdout)
        return 2
    results = []
    if os.path.exists(a.out):
        results = json.load(open(a.out))
    done = {(x["file"], x["line"], x["new"]) for x in results}
    try:
        for f in files:
            allm = mutants_of(os.path.join(WT, f))
            rng.shuffle(allm)
            # spread over the operators
            chosen, seen_lines = [], set()
            for op in ("delete", "rel", "logic", "offby1") * a.per_file:
                for m in allm:
                    if m[1] == op and m[0] not in seen_lines:
                        chosen.append(m)
                        seen_lines.add(m[0])
                        break
                if len(chosen) >= a.per_file:
                    break
            for (n, op, new) in chosen:
                if (f, n + 1, new.strip()) in done:
                    continue
                p = os.path.join(WT, f)
                lines = open(p).read().split("\n")
                old = lines[n]
                lines[n] = new
                open(p, "w").write("\n".join(lines))
                rec = dict(file=f, line=n + 1, op=op, old=old.strip(), new=new.strip(), killed_by=None, checks={}, suite=None)
                t0 = time.time()
                try:
                    B.build(WT, "nompi-small")
                    builds = True
                except Exception:
                    builds = False
                if not builds:
                    rec["killed_by"] = "does-not-compile"
                else:
                    order = list(FILES[f])
                    if "stats_take" in old and "C20" in order:
                        order.remove("C20")
                        order.insert(0, "C20")
                    for c in order:
                        env = dict(os.environ, VERIF_REPO=WT, VERIF_NO_EVIDENCE="1", VERIF_BUDGET_S=str(a.budget), VERIF_REPLAY_DIR="/tmp/verif_mutsweep_replays")
                        r = sh([os.path.join(VERIF, "check"), c], env=env)
                        cls = sorted(set(re.findall(r"class=(\S+)", r.stdout)))
                        rec["checks"][c] = dict(rc=r.returncode, classes=cls[:4])
                        if r.returncode == 1:
                            rec["killed_by"] = c
                            break
                    if rec["killed_by"] is None and not a.no_suite:
                        bd = "/tmp/verif_mutsweep_build"
                        shutil.rmtree(bd, ignore_errors=True)
                        r1 = sh(["cmake", "-G", "Ninja", "-S", WT, "-B", bd, "-DCMAKE_BUILD_TYPE=RelWithDebInfo"])
                        r2 = sh(["cmake", "--build", bd])
                        if r1.returncode or r2.returncode:
                            rec["suite"] = "build-failed"
                        else:
                            r3 = sh(["ctest", "--test-dir", bd, "-j4", "--timeout", "900"])
                            failed = re.findall(r"^\s*\d+ - (\S+) \((\w+)\)", r3.stdout, re.M)
                            # timeouts of the spin tests on a loaded machine say nothing
                            real = [x for x in failed if x[1] != "Timeout"]
                            rec["suite"] = "passes" if not real else "fails:" + ",".join(x[0] for x in real)
                            rec["suite_timeouts"] = [x[0] for x in failed if x[1] == "Timeout"]
                        shutil.rmtree(bd, ignore_errors=True)
                rec["seconds"] = round(time.time() - t0)
                results.append(rec)
                print("%-28s:%-4d %-7s %-60s -> %s%s" % (os.path.basename(f), n + 1, op, new.strip()[:60], rec["killed_by"] or "SURVIVED",
                                                      "" if rec["killed_by"] else " suite=%s" % rec["suite"]), flush=True)
                json.dump(results, open(a.out, "w"), indent=1)
                sh(["git", "-C", WT, "checkout", "--", "."])
    finally:
        sh(["git", "-C", REPO, "worktree", "remove", "--force", WT])
        shutil.rmtree(WT, ignore_errors=True)
        shutil.rmtree("/tmp/verif_mutsweep_replays", ignore_errors=True)
    k = sum(1 for x in results if x["killed_by"] and x["killed_by"] != "does-not-compile")
    s = [x for x in results if not x["killed_by"]]
    print("mutants: %d, killed by a check: %d, not compiling: %d, survivors: %d (of which the suite passes: %d)" %
          (len(results), k, sum(1 for x in results if x["killed_by"] == "does-not-compile"), len(s), sum(1 for x in s if x["suite"] == "passes")))
    return 0


if __name__ == "__main__":
    sys.exit(main())
