#!/bin/bash
# runs every claimed check with several seeds on the unchanged tree; any exit != 0 is a false alarm to investigate
cd "$(dirname "$0")"
for seed in "$@"; do
  for c in $(python3 -c "import json;print(' '.join(x['property_id'] for x in json.load(open('MANIFEST.json'))['checks']))"); do
    out=$(VERIF_SEED=$seed VERIF_NO_EVIDENCE=1 VERIF_REPLAY_DIR=/tmp/ms_replays ./check $c 2>&1)
    rc=$?
    echo "seed=$seed $c rc=$rc $(echo "$out" | tail -1)"
    if [ $rc -ne 0 ]; then echo "$out" | grep -v "^NOTE" | tail -8; fi
  done
done
