#!/bin/bash
# thorough tier of the checks named on the command line, on the unchanged tree (evidence not written: background validation)
cd "$(dirname "$0")"
for c in "$@"; do
  out=$(VERIF_NO_EVIDENCE=1 VERIF_REPLAY_DIR=/tmp/th_replays ./check $c --tier thorough 2>&1)
  rc=$?
  echo "$c rc=$rc $(echo "$out" | tail -1)"
  if [ $rc -ne 0 ]; then echo "$out" | grep -v "^NOTE" | tail -8; fi
done
