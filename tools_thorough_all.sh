#!/bin/bash
# thorough tier of every claimed check on the unchanged tree (evidence not written: meant for background validation)
cd "$(dirname "$0")"
for c in $(python3 -c "import json;print(' '.join(x['property_id'] for x in json.load(open('MANIFEST.json'))['checks']))"); do
  out=$(VERIF_NO_EVIDENCE=1 VERIF_REPLAY_DIR=/tmp/th_replays ./check $c --tier thorough 2>&1)
  rc=$?
  echo "$c rc=$rc $(echo "$out" | tail -1)"
  if [ $rc -ne 0 ]; then echo "$out" | grep -v "^NOTE" | tail -8; fi
done
