#!/bin/bash
# Not a registered check: a sanity run of the real code under the real OpenMPI (not deterministic, not simulated).
# Builds /repo in a scratch directory, links the multi-rank demonstration model of seeded/C02b (per-LP results compared
# with a serial run) and runs it N times on 2-4 ranks; every run must terminate and agree. It answers one question the
# simulated MPI cannot: do the multi-node shutdown fixes (d4fad4a, da4b34e) also terminate under a real MPI library?
N=${1:-30}
S=$(mktemp -d /tmp/mpismoke.XXXXXX)
trap 'rm -rf "$S"' EXIT
cmake -G Ninja -S "${VERIF_REPO:-/repo}" -B "$S/b" -DCMAKE_BUILD_TYPE=RelWithDebInfo >/dev/null && cmake --build "$S/b" --target rscore >/dev/null || exit 2
mpicc -O2 -g -I"${VERIF_REPO:-/repo}/src" "$(dirname "$0")/seeded/C02b/demo.c" "$S/b/src/librscore.a" -lm -lpthread -o "$S/demo" || exit 2
ok=0; bad=0
for i in $(seq 1 "$N"); do
  for cfg in "2 8 300 2 1000 200" "3 12 300 2 200 100" "4 10 200 1 50 300"; do
    set -- $cfg; np=$1; shift
    if (cd "$S" && timeout 300 mpirun --allow-run-as-root --oversubscribe -n "$np" ./demo "$@" >"$S/out.txt" 2>&1); then ok=$((ok+1)); else bad=$((bad+1)); echo "FAILED cfg=$cfg"; tail -3 "$S/out.txt"; fi
  done
done
echo "real-MPI smoke: ok=$ok bad=$bad"
[ "$bad" -eq 0 ]
