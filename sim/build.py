#!/usr/bin/env python3
"""Build pipeline of the simulator: compiles ROOT-Sim/core from the *current working tree* of the
repository with the seam header force-included, duplicates the objects once per simulated MPI rank
(objcopy --prefix-symbols), redirects the seams (threads, clocks, tmpfile, interposed cross-module
calls) and links everything with the harness.  Builds are cached by content hash."""
import hashlib, os, time, shutil, subprocess, sys, glob, json
from concurrent.futures import ThreadPoolExecutor

VERIF = os.path.dirname(os.path.dirname(os.path.abspath(__file__)))
SIM = os.path.join(VERIF, "sim")
BUILD_ROOT = os.path.join(VERIF, ".build")

CORE_SRCS = """arch/io.c arch/mem.c arch/thread.c core/core.c init.c core/sync.c datatypes/msg_queue.c
distributed/control_msg.c gvt/fossil.c gvt/gvt.c gvt/termination.c lib/random/random.c lib/random/xxtea.c
lib/topology/topology.c log/file.c log/log.c log/stats.c lp/lp.c lp/process.c mm/auto_ckpt.c mm/buddy/buddy.c
mm/buddy/ckpt.c mm/buddy/multi.c mm/msg_allocator.c parallel/parallel.c serial/serial.c""".split()

# libc / pthread entry points that become seams owned by the simulator
REDIRECT = {
    "pthread_create": "verif_pthread_create",
    "pthread_join": "verif_pthread_join",
    "pthread_setaffinity_np": "verif_pthread_setaffinity_np",
    "sched_getaffinity": "verif_sched_getaffinity",
    "sysconf": "verif_sysconf",
    "gettimeofday": "verif_gettimeofday",
    "tmpfile": "verif_tmpfile",
}

# cross-translation-unit calls of the core that are observed by a (read-only) wrapper in the harness
WRAP = ["msg_queue_insert", "msg_queue_extract", "msg_queue_time_peek", "fossil_lp_collect", "fossil_on_gvt",
        "termination_on_gvt", "termination_on_lp_rollback", "termination_on_msg_process",
        "model_allocator_checkpoint_take", "model_allocator_checkpoint_restore", "model_allocator_fossil_lp_collect",
        "process_lp_init", "process_lp_fini", "lp_init", "lp_fini", "stats_take", "stats_on_gvt", "gvt_phase_run",
        "sync_thread_barrier", "msg_allocator_free_at_gvt", "msg_queue_fini"]

HARNESS_SRCS = ["sched.c", "main.c", "model.c", "tw.c", "units.c", "ranks_gen.c"]

VARIANTS = {
    # name: (mpi, nranks, small arena, sanitizers, ndebug)
    "nompi-ship": dict(mpi=False, nranks=1, small=False, san=True, ndebug=True),
    "nompi-small": dict(mpi=False, nranks=1, small=True, san=True, ndebug=True),
    "mpi-ship": dict(mpi=True, nranks=4, small=False, san=True, ndebug=True),
    "mpi-small": dict(mpi=True, nranks=4, small=True, san=True, ndebug=True),
    "nompi-small-dbg": dict(mpi=False, nranks=1, small=True, san=True, ndebug=False),
    "nompi-small-plain": dict(mpi=False, nranks=1, small=True, san=False, ndebug=True),
}


def sh(cmd, **kw):
    r = subprocess.run(cmd, stdout=subprocess.PIPE, stderr=subprocess.STDOUT, text=True, **kw)
    if r.returncode:
        raise RuntimeError("command failed: %s\n%s" % (" ".join(cmd)[-300:], r.stdout[-3000:]))
    return r.stdout


def tree_hash(repo, variant):
    h = hashlib.sha256()
    files = sorted(glob.glob(os.path.join(repo, "src", "**", "*.[ch]"), recursive=True))
    files += sorted(glob.glob(os.path.join(SIM, "*.[ch]"))) + sorted(glob.glob(os.path.join(SIM, "fakempi", "*.[ch]")))
    files += [os.path.join(SIM, "build.py")]
    for f in files:
        h.update(f.encode())
        with open(f, "rb") as fh:
            h.update(fh.read())
    h.update(json.dumps(VARIANTS[variant], sort_keys=True).encode())
    return h.hexdigest()[:16]


def nm_syms(obj):
    defined, undefined = set(), set()
    for line in sh(["nm", "-g", obj]).splitlines():
        parts = line.split()
        if len(parts) == 2 and parts[0] == "U":
            undefined.add(parts[1])
        elif len(parts) == 3 and parts[1] not in ("U", "w"):
            defined.add(parts[2])
        elif len(parts) == 2 and parts[0] in ("w",):
            undefined.add(parts[1])
    return defined, undefined


def build(repo, variant, verbose=False):
    v = VARIANTS[variant]
    hh = tree_hash(repo, variant)
    out = os.path.join(BUILD_ROOT, "%s-%s" % (variant, hh))
    exe = os.path.join(out, "sim")
    if os.path.exists(exe):
        try:
            os.utime(out)
        except OSError:
            pass
        return exe
    # prune older builds of this variant (and abandoned temporary directories) unless used recently: another check, e.g. on a
    # scratch copy of the sources, may be running from them
    now = time.time()
    for old in glob.glob(os.path.join(BUILD_ROOT, variant + "-*")):
        rest = os.path.basename(old)[len(variant) + 1:]
        if rest.split(".tmp")[0].isalnum() and len(rest.split(".tmp")[0]) == 16:
            try:
                if now - os.stat(old).st_mtime > 1800:
                    shutil.rmtree(old, ignore_errors=True)
            except OSError:
                pass
    tmp = out + ".tmp%d" % os.getpid()
    shutil.rmtree(tmp, ignore_errors=True)
    os.makedirs(tmp)
    src = os.path.join(repo, "src")
    knobs = ["-DROOTSIM_VERIF"]
    if v["small"]:
        knobs += ["-DROOTSIM_VERIF_B_TOTAL_EXP=10U", "-DROOTSIM_VERIF_B_BLOCK_EXP=4U", "-DVERIF_ARENA_SMALL=1"]
    if v["ndebug"]:
        knobs += ["-DNDEBUG"]
    san = ["-fsanitize=address,undefined", "-fno-sanitize-recover=undefined"] if v["san"] else []
    common = ["gcc", "-std=gnu11", "-O1", "-g", "-fno-omit-frame-pointer", "-pthread"] + knobs + san
    core_flags = common + ["-w", "-fsanitize-coverage=trace-pc", "-DROOTSIM_VERSION=\"verif\"", "-I", src,
                           "-include", os.path.join(SIM, "seam.h")]
    srcs = list(CORE_SRCS) + (["distributed/mpi.c"] if v["mpi"] else ["distributed/no_mpi.c"])
    if v["mpi"]:
        core_flags += ["-I", os.path.join(SIM, "fakempi")]
    else:
        core_flags += ["-DDISABLE_MPI"]

    def cc(s):
        o = os.path.join(tmp, s.replace("/", "_")[:-2] + ".o")
        sh(core_flags + ["-c", os.path.join(src, s), "-o", o])
        return o

    with ThreadPoolExecutor(16) as ex:
        objs = list(ex.map(cc, srcs))
    defined, undef = set(), {}
    for o in objs:
        d, u = nm_syms(o)
        defined |= d
        undef[o] = u
    all_objs = []

    def rank_copy(args):
        o, k = args
        pre = "r%d_" % k
        o1 = o[:-2] + ".%s1.o" % pre
        o2 = o[:-2] + ".%s.o" % pre
        sh(["objcopy", "--prefix-symbols=" + pre, o, o1])
        lines = []
        for u in sorted(undef[o]):
            if u in WRAP and u in defined:
                lines.append("%s%s verif_wrap_%s" % (pre, u, u))
            elif u in defined:
                continue
            elif u in REDIRECT:
                lines.append("%s%s %s" % (pre, u, REDIRECT[u]))
            else:
                lines.append("%s%s %s" % (pre, u, u))
        mp = o2 + ".map"
        with open(mp, "w") as f:
            f.write("\n".join(lines) + "\n")
        sh(["objcopy", "--redefine-syms=" + mp, o1, o2])
        os.unlink(o1)
        return o2

    with ThreadPoolExecutor(16) as ex:
        all_objs = list(ex.map(rank_copy, [(o, k) for o in objs for k in range(v["nranks"])]))
    h_flags = common + ["-Wall", "-Wextra", "-Wno-unused-parameter", "-I", src, "-I", SIM,
                        "-DVERIF_NRANKS=%d" % v["nranks"], "-DVERIF_MPI=%d" % (1 if v["mpi"] else 0)]
    hs = list(HARNESS_SRCS) + (["fakempi/fakempi.c"] if v["mpi"] else [])

    def hcc(s):
        o = os.path.join(tmp, "h_" + s.replace("/", "_")[:-2] + ".o")
        sh(h_flags + ["-c", os.path.join(SIM, s), "-o", o])
        return o

    with ThreadPoolExecutor(16) as ex:
        hobjs = list(ex.map(hcc, hs))
    sh(common + ["-o", os.path.join(tmp, "sim")] + hobjs + all_objs + ["-lm"])
    for o in objs + all_objs + hobjs + glob.glob(os.path.join(tmp, "*.map")):
        try:
            os.unlink(o)
        except OSError:
            pass
    if os.path.exists(out):
        shutil.rmtree(tmp, ignore_errors=True)
    else:
        os.rename(tmp, out)
    return exe


if __name__ == "__main__":
    repo = os.environ.get("VERIF_REPO", "/repo")
    names = sys.argv[1:] or list(VARIANTS)
    for n in names:
        print(n, build(repo, n))
