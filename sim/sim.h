/* Deterministic simulator for ROOT-Sim/core: shared declarations of the harness. */
#pragma once
#define _GNU_SOURCE
#include <pthread.h>
#include <stdbool.h>
#include <stddef.h>
#include <stdint.h>
#include <stdio.h>

/* ------------------------------------------------------------------ params */
/* Every run is described by a flat list of integer parameters; a replay file is this list plus the
 * sparse decision trace.  X(name, default) */
#define PARAM_LIST(X)                                                                                                  \
	X(engine, 0)        /* 0 tw, 1 mm, 2 mq, 3 bar, 4 serial */                                                    \
	X(seed, 1)          /* run seed (informational once explicit params are given) */                             \
	X(dseed, 1)         /* seed of the decision stream */                                                         \
	X(mseed, 1)         /* model seed (private xorshift of the LPs, payload contents) */                          \
	X(prng_seed, 1)     /* global_config.prng_seed */                                                             \
	X(tsc_seed, 1)      /* jitter of the virtual cycle counter */                                                 \
	X(n_ranks, 1)                                                                                                  \
	X(n_threads, 2)     /* threads per rank */                                                                    \
	X(n_lps, 4)                                                                                                    \
	X(ckpt_interval, 0) /* 0 = automatic */                                                                       \
	X(gvt_period, 1000) /* virtual microseconds */                                                                \
	X(term_time_q, 0)   /* termination time in quarter units, 0 = none */                                         \
	X(core_binding, 0)                                                                                             \
	X(stats, 0)         /* request a statistics file */                                                           \
	X(serial, 0)                                                                                                   \
	/* model */                                                                                                    \
	X(m_kind, 0)        /* 0 generic family, 1 topology walk */                                                   \
	X(m_budget, 20)     /* events an LP handles before its predicate holds */                                     \
	X(m_budget_var, 0)  /* per-LP variation of the budget: budget + (xs % (var+1)) */                             \
	X(m_absorbing, 1)   /* LP ignores events once its predicate holds */                                          \
	X(m_extra, 0)       /* non-absorbing: events handled after the predicate first holds */                       \
	X(m_fanout, 1)      /* max extra events per handled event (besides the self chain) */                         \
	X(m_dest, 0)        /* 0 uniform, 1 neighbour, 2 hot spot, 3 self only */                                     \
	X(m_ts, 0)          /* 0 discrete {0,1/2,1,2} heavy ties, 1 discrete no zero, 2 continuous */                 \
	X(m_pl, 0)          /* payload profile 0 none, 1 small, 2 mixed up to 200 */                                  \
	X(m_init_ev, 1)     /* events scheduled at LP_INIT */                                                         \
	X(m_init_t0, 0)     /* init events at timestamp 0 */                                                          \
	X(m_pred, 0)        /* 0 counter, 1 some LPs true at init, 2 first true at ts 0, 3 flipping */                \
	X(m_mem, 0)         /* 0 none, 1 light, 2 heavy dynamic memory use */                                         \
	X(m_rng, 0)         /* 0 none, 1 Random/RandomRange, 2 all generators */                                      \
	X(m_rng_init, 1)    /* the LPs draw from the library generator at LP_INIT already (else their first draw is in an event) */   \
	X(m_rng_craft, 0)   /* sometimes the generator is put into a state whose next output is an extreme value (0, 1, 2^63, ...) */             \
	X(m_forward, 0)     /* sometimes an event is forwarded unchanged (same timestamp, type and payload) to another LP */                    \
	X(m_endless, 0)     /* the event population never dies out: the run can only end through the predicates (or a stop / termination time) */ \
	X(m_nosend, 0)      /* some events send nothing at all (the self chain is then sent twice by the previous one) */     \
	X(m_topo, 0)        /* topology geometry (0 none) */                                                          \
	X(m_topo_w, 3)                                                                                                 \
	X(m_topo_h, 3)                                                                                                 \
	/* schedule / fault profile */                                                                                 \
	X(policy, 0)        /* 0 random, 1 pct, 2 rr */                                                               \
	X(p_stay, 90)       /* percent */                                                                             \
	X(pct_d, 3)                                                                                                    \
	X(rr_q, 50)                                                                                                    \
	X(stall_rate, 0)    /* per-100000 sps chance to start a stall */                                              \
	X(stall_len, 2000)                                                                                             \
	X(clk_den, 4)       /* clock advances 1us every clk_den scheduling points; 0 = only idle jumps */             \
	X(clk_step, 1)      /* microseconds added per clock tick */                                                  \
	X(clk_jump_rate, 0) /* per-100000 */                                                                          \
	X(clk_back, 0)      /* allow small backward steps */                                                          \
	X(stop_at, 0)       /* inject RootsimStop at this decision index (0 = never) */                               \
	X(stop_in_round, 0) /* delay the injected stop until a GVT round is open */                                   \
	X(tmpfile_fail, 0)  /* n-th tmpfile() call fails (0 = never) */                                               \
	X(mpi_delay, 0)     /* max delivery delay in decisions */                                                     \
	X(mpi_empty_probe, 0) /* percent of probes that report nothing although a message is matchable */            \
	X(mpi_coll_delay, 0)  /* max extra MPI_Test calls before a collective completes */                           \
	X(edge_every, 0)    /* basic-block preemption: yield every ~n edges (0 = off) */                              \
	X(horizon, 250000)  /* fault horizon: after this many scheduling points no more stalls, delays, jumps */              \
	X(max_sps, 3000000) /* livelock budget */                                                                     \
	/* unit engines */                                                                                             \
	X(u_ops, 40)                                                                                                   \
	X(u_threads, 3)                                                                                                \
	X(u_a, 0)                                                                                                      \
	X(u_b, 0)                                                                                                      \
	X(u_c, 0)

struct params {
#define X(n, d) int64_t n;
	PARAM_LIST(X)
#undef X
};
extern struct params P;

/* ------------------------------------------------------------------ prng */
struct sim_prng {
	uint64_t s[4];
};
extern void prng_seed(struct sim_prng *r, uint64_t seed);
extern uint64_t prng_next(struct sim_prng *r);
static inline uint64_t prng_below(struct sim_prng *r, uint64_t n) { return n ? prng_next(r) % n : 0; }
extern uint64_t mix64(uint64_t a, uint64_t b);

/* ------------------------------------------------------------------ scheduler */
#define VT_MAX 40
#define VSP_LOAD_K 1 /* == VSP_LOAD of seam.h */
#define VSP_FSUB_K 6 /* == VSP_FSUB of seam.h */
enum vt_kind { VTK_MAIN = 1, VTK_WORKER, VTK_STOPPER, VTK_UNIT };
enum vt_state { VT_UNUSED = 0, VT_RUNNABLE, VT_BLOCKED, VT_DONE };

struct vthread {
	int id;
	int rank;
	int kind;
	int state;
	int gate;
	pthread_t pt;
	void *(*fn)(void *);
	void *arg;
	void *ret;
	int (*block_pred)(void *);
	void *block_arg;
	const char *block_what;
	/* last scheduling point */
	int sp_kind;
	const volatile void *sp_addr;
	unsigned sp_size;
	const char *sp_file;
	int sp_line;
	const char *sp_func;
	uint64_t sp_pre; /* value at sp_addr when the thread resumed to perform the operation */
	uint64_t sps;
	uint64_t noprog; /* scheduling points of this thread since it last made progress */
	uint64_t stall_until;
	int prio;
	void *user; /* engine specific */
};

enum dec_kind { DK_THREAD = 1, DK_CLOCK, DK_STALL, DK_MPI_PICK, DK_MPI_DELAY, DK_MPI_EMPTY, DK_MPI_COLL, DK_FAULT, DK_EDGE };

struct sim_globals {
	bool active;    /* scheduler owns the threads */
	bool replay;    /* decisions come from the explicit trace */
	bool have_trace;
	struct sim_prng dec_rng, tsc_rng, aux_rng;
	uint64_t didx;  /* decision counter */
	uint64_t sps;   /* scheduling points */
	uint64_t ctx_switches;
	uint64_t clock_us;
	uint64_t tsc;
	uint64_t noprog;     /* global: scheduling points since the last progress event */
	uint64_t idle_jumps;
	uint64_t evhash;
	uint64_t nevents;
	int nvt;
	int cur;
	int live;
	struct vthread vt[VT_MAX];
	int done_futex;
	/* pct */
	uint64_t pct_change[8];
	int pct_low;
	/* rr */
	uint64_t rr_left;
	/* fault counters */
	uint64_t f_stalls, f_clk_jumps, f_clk_back, f_stop, f_tmpfile, f_edge_yields, f_rotations;
	uint64_t tmpfile_calls;
	bool fair_only; /* after the fault horizon: no overlays */
};
extern struct sim_globals G;
extern __thread struct vthread *vt_self;

extern void sim_init_run(void);
extern struct vthread *sim_spawn(int kind, int rank, void *(*fn)(void *), void *arg);
extern void sim_run_all(void); /* controller: hand over and wait until every vthread is done */
extern void sim_block_until(int (*pred)(void *), void *arg, const char *what);
extern void sim_yield(void); /* a scheduling point that is not an atomic */
extern void sim_yield_at(const char *what);
extern void sim_progress(void);
extern int sim_commit(int kind, int n, int v);
extern void sim_event(uint64_t tag, uint64_t a, uint64_t b);
extern const char *sim_symbol(const volatile void *addr, char *buf, size_t n);
extern void sim_symbols_load(void);
extern void *sim_symbol_addr(const char *name);

/* ------------------------------------------------------------------ verdicts */
extern void sim_violation(const char *prop, const char *cls, const char *fmt, ...) __attribute__((format(printf, 3, 4), noreturn));
extern void sim_violation_soft(const char *prop, const char *cls, const char *fmt, ...) __attribute__((format(printf, 3, 4)));
extern bool sim_has_soft_violation(void);
extern void sim_finish(const char *status) __attribute__((noreturn));
extern void sim_note(const char *fmt, ...) __attribute__((format(printf, 1, 2)));
extern void probe_hit(const char *name);
extern void probe_add(const char *name, uint64_t n);
extern uint64_t probe_get(const char *name);

/* trace / replay file */
extern int replay_load(const char *path);
extern void replay_write(const char *path, const char *comment);
extern const char *g_replay_out; /* where to write the replay file if the run ends in a violation */
extern int g_result_fd;
extern bool g_verbose;
