/* The model family M(params): one handler that runs unchanged under the reference executor,
 * the serial runtime and the parallel/distributed runtime; and the reference executor itself. */
#include "model.h"

#include <math.h>
#include <stdlib.h>
#include <string.h>

struct ref_lp REF[MODEL_MAX_LPS];
size_t ref_total_events;
double ref_all_true_ts = -1;
bool ref_all_true;
size_t ref_all_true_count; /* events executed when every predicate has held for the first time */
/* events identical in (timestamp, type, size, payload) but addressed to different LPs are not ordered: a correct executor has
 * dispatched between lo and hi events when it stops at the event after which every predicate has held */
size_t ref_stop_lo, ref_stop_hi;
bool ref_truncated; /* endless models: the reference stopped at a horizon */
static struct lp_msg *ref_stop_ev;

static struct topology *g_topo;
static unsigned graph_links[MODEL_MAX_LPS]; /* distinct links added from each region of a graph topology */

double term_time(void) { return (double)P.term_time_q / 4.0; }

/* ------------------------------------------------------------------ hashing helpers */
uint64_t payload_hash(const void *p, unsigned n)
{
	const unsigned char *c = p;
	uint64_t h = 0xcbf29ce484222325ULL ^ n;
	for(unsigned i = 0; i < n; i++)
		h = (h ^ c[i]) * 0x100000001b3ULL;
	return h;
}

static uint64_t buf_hash(const unsigned char *p, uint32_t sz)
{
	if(sz <= 1024)
		return payload_hash(p, sz);
	uint64_t h = payload_hash(p, 512) ^ (payload_hash(p + sz - 512, 512) * 3);
	for(uint32_t k = 1; k < 16; k++)
		h = mix64(h, p[(uint64_t)sz * k / 16]);
	return h;
}

uint64_t model_state_digest(const struct lp_state *s)
{
	uint64_t h = mix64(s->digest, s->xs);
	h = mix64(h, s->libsum);
	h = mix64(h, ((uint64_t)s->handled << 32) | s->budget);
	h = mix64(h, ((uint64_t)s->limit << 32) | s->nbuf);
	h = mix64(h, s->skip_chain);
	h = mix64(h, s->init_draws[0]);
	h = mix64(h, s->init_draws[1]);
	for(uint32_t i = 0; i < s->nbuf; i++) {
		h = mix64(h, ((uint64_t)s->bufs[i].sz << 32) | s->bufs[i].tag);
		h = mix64(h, buf_hash(s->bufs[i].p, s->bufs[i].sz));
	}
	return h;
}

static inline uint64_t xs_next(uint64_t x)
{
	x ^= x << 13;
	x ^= x >> 7;
	x ^= x << 17;
	return x ? x : 0x9e3779b97f4a7c15ULL;
}

static inline uint64_t dbits(double d)
{
	uint64_t u;
	memcpy(&u, &d, sizeof(u));
	return u;
}

/* ------------------------------------------------------------------ reference executor state */
struct ref_lpx {
	void *state;
	struct rng_ctx rng;
	struct lp_ctx fake;
};
static struct ref_lpx ref_lps[MODEL_MAX_LPS];
static struct lp_msg **rq;
static size_t rq_n, rq_cap, rq_head;
static struct lp_msg *ref_cur_msg;
static lp_id_t ref_cur_lp;

static bool ref_before(const struct lp_msg *a, const struct lp_msg *b)
{
	bool ab = msg_is_before(a, b);
	if(ab && msg_is_before(b, a))
		sim_violation("C10", "tiebreak-asymmetric", "the runtime's tie-break orders two events both ways (t=%g type %u/%u)",
		    a->dest_t, a->m_type, b->m_type);
	return ab;
}

static void ref_schedule(lp_id_t receiver, simtime_t ts, unsigned type, const void *payload, unsigned size)
{
	struct lp_msg *m = calloc(1, sizeof(*m) + (size > MSG_PAYLOAD_BASE_SIZE ? size - MSG_PAYLOAD_BASE_SIZE : 0) + 8);
	m->dest = receiver;
	m->dest_t = ts;
	m->m_type = type;
	m->pl_size = size;
	m->raw_flags = 0;
	if(size)
		memcpy(m->pl, payload, size);
	/* strictly after the running event, or - for another LP only - equivalent to it (neither before the other): no order is
	 * needed between events of different LPs and the runtime's own validity check admits it */
	if(ref_cur_msg && !ref_before(ref_cur_msg, m) && !(receiver != ref_cur_lp && !ref_before(m, ref_cur_msg))) {
		sim_note("MODEL-BUG: event scheduled not strictly after the current one (t=%g type=%u -> t=%g type=%u)", ref_cur_msg->dest_t,
		    ref_cur_msg->m_type, ts, type);
		sim_finish("harness");
	}
	if(receiver >= (lp_id_t)P.n_lps) {
		sim_note("MODEL-BUG: bad receiver");
		sim_finish("harness");
	}
	/* sorted insertion: after every element that is not after the new one */
	size_t lo = rq_head, hi = rq_n;
	while(lo < hi) {
		size_t mid = (lo + hi) / 2;
		if(ref_before(m, rq[mid]))
			hi = mid;
		else
			lo = mid + 1;
	}
	if(rq_n == rq_cap) {
		rq_cap = rq_cap ? rq_cap * 2 : 1024;
		rq = realloc(rq, rq_cap * sizeof(*rq));
	}
	memmove(&rq[lo + 1], &rq[lo], (rq_n - lo) * sizeof(*rq));
	rq[lo] = m;
	rq_n++;
}

/* ------------------------------------------------------------------ API shims: runtime copy of the caller's rank, or reference */
void ScheduleNewEvent(lp_id_t receiver, simtime_t timestamp, unsigned event_type, const void *event_content, unsigned event_size)
{
	if(vt_self)
		RKC->ScheduleNewEvent(receiver, timestamp, event_type, event_content, event_size);
	else
		ref_schedule(receiver, timestamp, event_type, event_content, event_size);
}

void SetState(void *new_state)
{
	if(vt_self)
		RKC->SetState(new_state);
	else
		ref_lps[ref_cur_lp].state = new_state;
}

void *rs_malloc(size_t req_size)
{
	if(vt_self)
		return RKC->rs_malloc(req_size);
	return req_size ? malloc(req_size) : NULL;
}

void *rs_calloc(size_t nmemb, size_t size)
{
	if(vt_self)
		return RKC->rs_calloc(nmemb, size);
	return nmemb * size ? calloc(nmemb, size) : NULL;
}

void rs_free(void *ptr)
{
	if(vt_self)
		RKC->rs_free(ptr);
	else
		free(ptr);
}

void *rs_realloc(void *ptr, size_t req_size)
{
	if(vt_self)
		return RKC->rs_realloc(ptr, req_size);
	if(!req_size)
		return NULL;
	return realloc(ptr, req_size);
}

/* The numerical library is the only core code the reference executes; it runs on a private generator. */
#define RNG_PROLOGUE() struct rank_api *rk = vt_self ? RKC : &RK[0]
double Random(void)
{
	RNG_PROLOGUE();
	return rk->Random();
}
uint64_t RandomU64(void)
{
	RNG_PROLOGUE();
	return rk->RandomU64();
}
double Poisson(void)
{
	RNG_PROLOGUE();
	return rk->Poisson();
}
double Normal(void)
{
	RNG_PROLOGUE();
	return rk->Normal();
}
int RandomRange(int min, int max)
{
	RNG_PROLOGUE();
	return rk->RandomRange(min, max);
}
int RandomRangeNonUniform(int x, int min, int max)
{
	RNG_PROLOGUE();
	return rk->RandomRangeNonUniform(x, min, max);
}
double Gamma(unsigned ia)
{
	RNG_PROLOGUE();
	return rk->Gamma(ia);
}
unsigned Zipf(double skew, unsigned limit)
{
	RNG_PROLOGUE();
	return rk->Zipf(skew, limit);
}
lp_id_t CountRegions(struct topology *t)
{
	RNG_PROLOGUE();
	return rk->CountRegions(t);
}
lp_id_t CountDirections(lp_id_t from, struct topology *t)
{
	RNG_PROLOGUE();
	return rk->CountDirections(from, t);
}
lp_id_t GetReceiver(lp_id_t from, struct topology *t, enum topology_direction d)
{
	RNG_PROLOGUE();
	return rk->GetReceiver(from, t, d);
}
bool IsNeighbor(lp_id_t from, lp_id_t to, struct topology *t)
{
	RNG_PROLOGUE();
	return rk->IsNeighbor(from, to, t);
}

/* the core's headers pull in logger(); give the harness its own sink */
void vlogger(enum log_level level, char *file, unsigned line, const char *fmt, ...)
{
	(void)level;
	(void)file;
	(void)line;
	(void)fmt;
}

/* ------------------------------------------------------------------ the model */
static const double ts_incs[4] = {0.0, 0.5, 1.0, 2.0};
static const unsigned pl_small[] = {0, 1, 8, 31, 32};
static const unsigned pl_mixed[] = {0, 1, 8, 31, 32, 33, 64, 200};
static const uint32_t mem_sizes[] = {1, 15, 16, 17, 63, 64, 65, 200, 512, 1000, 4096, 20000, 65536};

bool model_can_end(lp_id_t me, const void *st)
{
	(void)me;
	const struct lp_state *s = st;
	if(!s)
		return false;
	if(P.m_pred == 3)
		return s->handled >= s->limit || (s->handled >= s->budget && (s->digest & 1));
	return s->handled >= s->budget;
}

static void fill_bytes(unsigned char *p, uint32_t from, uint32_t to, uint64_t seed)
{
	for(uint32_t i = from; i < to; i++) {
		seed = seed * 6364136223846793005ULL + 1442695040888963407ULL;
		p[i] = (unsigned char)(seed >> 56);
	}
}

static uint32_t pick_mem_size(uint64_t r)
{
	uint32_t arena = 1u << B_TOTAL_EXP;
	unsigned n = sizeof(mem_sizes) / sizeof(*mem_sizes);
	for(int tries = 0; tries < 8; tries++) {
		uint32_t sz = mem_sizes[(r >> (tries * 5)) % n];
		if(sz <= arena && (sz <= 1024 || ((r >> 50) & 3) == 0)) /* big blocks are rare: they dominate the cost */
			return sz;
	}
	return 16;
}

static void mem_ops(struct lp_state *s, uint64_t r)
{
	if(P.m_mem == 1 && (r & 3))
		return;
	unsigned op = (r >> 8) % 8;
	if(op <= 2) {
		if(s->nbuf >= MODEL_MAX_BUFS)
			op = 3;
		else {
			uint32_t sz = pick_mem_size(r >> 11);
			bool zeroed = (r >> 40) & 1;
			unsigned char *p = zeroed ? rs_calloc(1, sz) : rs_malloc(sz);
			if(!p)
				return;
			/* a model may rely on the zeroes of rs_calloc: the second half of such a block is left as it came */
			fill_bytes(p, 0, zeroed ? sz / 2 : sz, r);
			s->bufs[s->nbuf].p = p;
			s->bufs[s->nbuf].sz = sz;
			s->bufs[s->nbuf].tag = (uint32_t)(r >> 20);
			s->nbuf++;
			return;
		}
	}
	if(!s->nbuf)
		return;
	unsigned k = (r >> 16) % s->nbuf;
	if(op <= 4) {
		rs_free(s->bufs[k].p);
		s->bufs[k] = s->bufs[--s->nbuf];
	} else if(op == 5) {
		uint32_t old = s->bufs[k].sz, sz = pick_mem_size(r >> 13);
		unsigned char *p = rs_realloc(s->bufs[k].p, sz);
		if(!p)
			return;
		if(sz > old)
			fill_bytes(p, old, sz, r ^ 0x5a5a);
		s->bufs[k].p = p;
		s->bufs[k].sz = sz;
	} else {
		uint32_t sz = s->bufs[k].sz;
		uint32_t off = (uint32_t)((r >> 24) % sz);
		uint32_t len = 1 + (uint32_t)((r >> 44) % 24);
		if(off + len > sz)
			len = sz - off;
		fill_bytes(s->bufs[k].p, off, off + len, r ^ 0xa5a5);
	}
}

/* "For all states of the per-LP generator": every non-zero state lies on the single cycle of xoshiro256**, so any state is a
 * legal one; waiting 2^64 draws for the interesting ones is not an option.  The state is rewritten (inside the rollbackable
 * generator context, as a function of the event alone, so that re-execution repeats it) such that the next 64-bit output is a
 * chosen extreme value: output = rotl(s[1] * 5, 7) * 9 is a bijection of s[1]. */
static void rng_craft(uint64_t sel)
{
	static const uint64_t want[] = {0, 1, 2, 3, 0x7ff, 0x800, 0xfff, 1ULL << 52, (1ULL << 53) - 1, 1ULL << 63, (1ULL << 63) - 1, ~0ULL, ~0ULL - 1,
	    0xffffffffULL, 1ULL << 32};
	RNG_PROLOGUE();
	struct lp_ctx *lp = *rk->p_current_lp();
	if(!lp || !lp->rng_ctx)
		return;
	uint64_t v = want[sel % (sizeof(want) / sizeof(*want))] * 0x8E38E38E38E38E39ULL; /* / 9 */
	v = (v >> 7) | (v << 57);                                                        /* rotr 7 */
	lp->rng_ctx->state[1] = v * 0xCCCCCCCCCCCCCCCDULL;                               /* / 5 */
}

static void rng_ops(struct lp_state *s, uint64_t r)
{
	if(P.m_rng_craft && ((r >> 40) & 15) == 0)
		rng_craft(r >> 44);
	s->libsum = mix64(s->libsum, dbits(Random()));
	if(P.m_rng < 2)
		return;
	if(P.m_rng_craft && ((r >> 52) & 15) == 0)
		rng_craft(r >> 56);
	switch((r >> 4) % 7) {
		case 0:
			s->libsum = mix64(s->libsum, (uint64_t)RandomRange(-3, 40));
			break;
		case 1:
			s->libsum = mix64(s->libsum, dbits(Expent(2.5)));
			break;
		case 2:
			s->libsum = mix64(s->libsum, dbits(Normal()));
			break;
		case 3:
			/* orders 1..9, sometimes +32 or +64: per-order scratch state inside the library must not leak between LPs */
			s->libsum = mix64(s->libsum, dbits(Gamma(1 + (unsigned)((r >> 9) % 9) + (((r >> 13) & 3) ? 0 : 32 * (1 + (unsigned)((r >> 15) & 1))))));
			break;
		case 4:
			s->libsum = mix64(s->libsum, Zipf(1.5, 20));
			break;
		case 5:
			s->libsum = mix64(s->libsum, RandomU64());
			break;
		default:
			s->libsum = mix64(s->libsum, (uint64_t)RandomRangeNonUniform(5, 1, 9));
			break;
	}
}

static lp_id_t pick_dest(lp_id_t me, uint64_t r)
{
	lp_id_t n = (lp_id_t)P.n_lps;
	if(g_topo) {
		lp_id_t d = GetReceiver(me, g_topo, DIRECTION_RANDOM);
		return d < n ? d : me;
	}
	switch(P.m_dest) {
		case 1:
			return (r & 1) ? (me + 1) % n : (me + n - 1) % n;
		case 2:
			return (r % 10) < 7 ? 0 : (r >> 8) % n;
		case 3:
			return me;
		default:
			return (r >> 8) % n;
	}
}

static double pick_inc(struct lp_state *s, uint64_t r, unsigned cur_type, unsigned *new_type)
{
	unsigned sel = (unsigned)(r % 4);
	if(P.m_rng >= 1)
		sel = (unsigned)RandomRange(0, 3);
	*new_type = (unsigned)((r >> 5) % 4);
	(void)s;
	switch(P.m_ts) {
		case 2:
			return 0.01 + (double)((r >> 12) % 100000) / 10000.0;
		case 1:
			return ts_incs[1 + sel % 3];
		default:
			if(sel == 0) {
				/* a zero-delay event must come strictly after the current one: strictly smaller type */
				if(cur_type == 0 || cur_type >= LP_INIT)
					return 0.5;
				*new_type = (unsigned)((r >> 5) % cur_type);
				return 0.0;
			}
			return ts_incs[sel];
	}
}

static unsigned pick_payload(unsigned char *buf, uint64_t r)
{
	unsigned sz = 0;
	if(P.m_pl == 1)
		sz = pl_small[(r >> 3) % (sizeof(pl_small) / sizeof(*pl_small))];
	else if(P.m_pl >= 2)
		sz = pl_mixed[(r >> 3) % (sizeof(pl_mixed) / sizeof(*pl_mixed))];
	/* few distinct contents: equal timestamps with equal type and size then compare by payload bytes; long payloads often
	 * share their first 32 bytes (the part stored inline in the message) and differ only in the continuation */
	if(sz > MSG_PAYLOAD_BASE_SIZE && ((r >> 23) & 1)) {
		fill_bytes(buf, 0, MSG_PAYLOAD_BASE_SIZE, 7);
		fill_bytes(buf, MSG_PAYLOAD_BASE_SIZE, sz, (r >> 17) % 3);
	} else {
		fill_bytes(buf, 0, sz, (r >> 17) % 3);
	}
	return sz;
}

static void topo_selfcheck(lp_id_t me);

/* A zero-delay event is only valid if the runtime's own order puts it strictly after the event being handled; the order is taken
 * from the code (it is the specification), so a tie-break that is changed consistently leaves the model valid. */
static double valid_inc(double inc, unsigned cur_type, const void *cur_pl, unsigned cur_sz, unsigned new_type, const void *new_pl, unsigned new_sz)
{
	if(inc > 0.0)
		return inc;
	_Alignas(16) unsigned char a_l[sizeof(struct lp_msg) + MODEL_MAX_PL], b_l[sizeof(struct lp_msg) + MODEL_MAX_PL];
	struct lp_msg *a = (struct lp_msg *)a_l, *b = (struct lp_msg *)b_l;
	memset(a, 0, sizeof(*a));
	memset(b, 0, sizeof(*b));
	a->m_type = cur_type;
	a->pl_size = cur_sz;
	if(cur_sz)
		memcpy(a->pl, cur_pl, cur_sz);
	b->m_type = new_type;
	b->pl_size = new_sz;
	if(new_sz)
		memcpy(b->pl, new_pl, new_sz);
	return msg_is_before_extended(a, b) && !msg_is_before_extended(b, a) ? 0.0 : 0.5;
}

void model_dispatch(lp_id_t me, simtime_t now, unsigned type, const void *content, unsigned size, void *st)
{
	struct lp_state *s = st;
	unsigned char pl[MODEL_MAX_PL + 8];

	if(type == LP_INIT) {
		eng_on_init(me);
		s = (me & 1) ? rs_calloc(1, sizeof(*s)) : rs_malloc(sizeof(*s));
		memset(s, 0, sizeof(*s));
		SetState(s);
		s->xs = xs_next(mix64((uint64_t)P.mseed, me) | 1);
		s->digest = mix64(me, 0x1417);
		uint32_t budget = (uint32_t)P.m_budget;
		if(P.m_budget_var > 0)
			budget += (uint32_t)(s->xs % (uint64_t)(P.m_budget_var + 1));
		if(P.m_pred == 1 && me % 3 == 1)
			budget = 0;
		if(P.m_pred == 2 && me % 2 == 0)
			budget = 1;
		if(P.m_pred == 4) /* every LP is complete right after LP_INIT: nothing needs to run */
			budget = 0;
		s->budget = budget;
		s->limit = P.m_absorbing ? budget : budget + (uint32_t)P.m_extra;
		if(P.m_endless)
			s->limit = 0x7fffffffu;
		if(P.m_rng && P.m_rng_init) {
			s->init_draws[0] = dbits(Random());
			s->init_draws[1] = RandomU64();
		}
		if(g_topo)
			topo_selfcheck(me);
		for(int j = 0; j < P.m_init_ev; j++) {
			s->xs = xs_next(s->xs);
			double t0 = P.m_init_t0 ? 0.0 : 0.5 * (double)(1 + (s->xs >> 9) % 4);
			if(P.m_ts == 2 && !P.m_init_t0)
				t0 = 0.01 + (double)((s->xs >> 12) % 1000) / 100.0;
			unsigned sz = pick_payload(pl, s->xs);
			if(t0 == 0.0)
				t0 = valid_inc(0.0, LP_INIT, NULL, 0, (unsigned)(j % 4), pl, sz);
			ScheduleNewEvent(me, t0, (unsigned)(j % 4), pl, sz);
			if(j == 0 && P.m_dest != 3 && ((s->xs >> 30) & 1)) {
				s->xs = xs_next(s->xs);
				ScheduleNewEvent(pick_dest(me, s->xs), t0 + 0.5, 1, pl, sz);
			}
		}
		return;
	}
	if(type == LP_FINI) {
		eng_on_fini(me, s);
		return;
	}

	eng_on_dispatch(me, now, type, content, size, st, true);
	if(s->handled >= s->limit) { /* deaf: the state no longer changes */
		eng_on_dispatch(me, now, type, content, size, st, false);
		return;
	}
	s->digest = mix64(mix64(s->digest, dbits(now)), ((uint64_t)type << 32) | size);
	s->digest = mix64(s->digest, payload_hash(content, size));
	s->xs = xs_next(s->xs ^ (s->digest >> 7));
	s->handled++;
	uint64_t r = s->xs;
	if(P.m_mem)
		mem_ops(s, mix64(r, 1));
	if(P.m_rng)
		rng_ops(s, mix64(r, 2));

	if(s->skip_chain) {
		/* an event that schedules nothing: its history entry has no sent-message entries in front of it */
		s->skip_chain = 0;
		eng_on_dispatch(me, now, type, content, size, st, false);
		return;
	}
	/* the self chain keeps every LP going until its budget is reached */
	unsigned nt;
	double inc = pick_inc(s, mix64(r, 3), type, &nt);
	unsigned sz = pick_payload(pl, mix64(r, 4));
	inc = valid_inc(inc, type, content, size, nt, pl, sz);
	ScheduleNewEvent(me, now + inc, nt, pl, sz);
	if(P.m_nosend && (mix64(r, 21) & 3) == 0) {
		/* send the next link of the chain in advance; the event that would have sent it sends nothing */
		uint64_t r2 = mix64(r, 22);
		unsigned nt2;
		double inc2 = pick_inc(s, r2, 0, &nt2);
		unsigned sz2 = pick_payload(pl, mix64(r2, 4));
		ScheduleNewEvent(me, now + inc + (inc2 > 0 ? inc2 : 0.5), nt2, pl, sz2);
		s->skip_chain = 1;
	}
	if(P.m_forward && me + 1 < (lp_id_t)P.n_lps && !g_topo && (mix64(r, 31) & 7) == 0) {
		/* a token passed on unchanged: the copy is neither before nor after the running event in the runtime's order (it goes to
		 * another LP, so no order between the two is needed), which the runtime's own validity check admits.  Only towards
		 * higher LP ids: a token that could come back to an LP at the same timestamp would be equivalent to its own cause
		 * there, i.e. the model would rely on an order the runtime does not define (and Time Warp may then cycle for ever). */
		lp_id_t n = (lp_id_t)P.n_lps;
		ScheduleNewEvent(me + 1 + (lp_id_t)(mix64(r, 32) % (n - 1 - me)), now, type, content, size);
	}
	unsigned extra = P.m_fanout > 0 ? (unsigned)(mix64(r, 5) % (uint64_t)(P.m_fanout + 1)) : 0;
	for(unsigned k = 0; k < extra; k++) {
		uint64_t rr = mix64(r, 6 + k);
		inc = pick_inc(s, rr, type, &nt);
		sz = pick_payload(pl, mix64(rr, 9));
		inc = valid_inc(inc, type, content, size, nt, pl, sz);
		ScheduleNewEvent(pick_dest(me, mix64(rr, 11)), now + inc, nt, pl, sz);
	}
	eng_on_dispatch(me, now, type, content, size, st, false);
}

/* ------------------------------------------------------------------ topology: setup and per-LP consistency check (C19) */
extern void eng_topo_violation(const char *what, lp_id_t from, long a, long b);

static bool topo_has_fixed_dirs(void)
{
	return P.m_topo == TOPOLOGY_HEXAGON || P.m_topo == TOPOLOGY_SQUARE || P.m_topo == TOPOLOGY_TORUS ||
	       P.m_topo == TOPOLOGY_RING || P.m_topo == TOPOLOGY_BIDRING;
}

static void topo_selfcheck(lp_id_t me)
{
	lp_id_t regions = CountRegions(g_topo);
	if(me >= regions)
		return;
	long valid = 0;
	if(topo_has_fixed_dirs()) {
		for(int d = 0; d < DIRECTION_RANDOM; d++) {
			lp_id_t r = GetReceiver(me, g_topo, d);
			if(r == INVALID_DIRECTION)
				continue;
			valid++;
			if(r >= regions)
				eng_topo_violation("receiver-outside", me, d, (long)r);
			else if(!IsNeighbor(me, r, g_topo))
				eng_topo_violation("receiver-not-neighbor", me, d, (long)r);
		}
	}
	long expect = -1;
	switch(P.m_topo) {
		case TOPOLOGY_HEXAGON:
		case TOPOLOGY_SQUARE:
		case TOPOLOGY_TORUS:
		case TOPOLOGY_RING:
		case TOPOLOGY_BIDRING:
			expect = valid;
			break;
		case TOPOLOGY_STAR:
			expect = me == 0 ? (long)regions - 1 : 1;
			break;
		case TOPOLOGY_FCMESH:
			expect = (long)regions - 1;
			break;
		default:
			expect = (long)graph_links[me]; /* graph: the number of links added from that region */
			break;
	}
	long cd = (long)CountDirections(me, g_topo);
	if(expect >= 0 && cd != expect)
		eng_topo_violation("count-directions", me, cd, expect);
	/* does any neighbour exist? */
	bool any = false;
	for(lp_id_t r = 0; r < regions && !any; r++)
		any = r != me && IsNeighbor(me, r, g_topo);
	if(P.m_topo == TOPOLOGY_TORUS || P.m_topo == TOPOLOGY_RING || P.m_topo == TOPOLOGY_BIDRING)
		any = true; /* a region may be its own neighbour when a side has length 1 */
	if(P.m_topo == TOPOLOGY_GRAPH)
		any = cd > 0;
	if(topo_has_fixed_dirs())
		any = valid > 0;
	if(any || P.m_topo == TOPOLOGY_STAR || P.m_topo == TOPOLOGY_FCMESH) {
		lp_id_t r = GetReceiver(me, g_topo, DIRECTION_RANDOM);
		if(r == INVALID_DIRECTION) {
			if(any)
				eng_topo_violation("random-invalid-although-neighbor-exists", me, 0, 0);
		} else if(r >= regions) {
			eng_topo_violation("random-outside", me, (long)r, (long)regions);
		} else if(!IsNeighbor(me, r, g_topo)) {
			eng_topo_violation("random-not-neighbor", me, (long)r, 0);
		}
	}
}

void model_setup(void)
{
	g_topo = NULL;
	if(P.m_topo <= 0)
		return;
	struct rank_api *rk = &RK[0];
	switch(P.m_topo) {
		case TOPOLOGY_HEXAGON:
		case TOPOLOGY_SQUARE:
		case TOPOLOGY_TORUS:
			g_topo = rk->vInitializeTopology((enum topology_geometry)P.m_topo, 2, (unsigned)P.m_topo_h, (unsigned)P.m_topo_w);
			break;
		default:
			g_topo = rk->vInitializeTopology((enum topology_geometry)P.m_topo, 1, (unsigned)P.n_lps);
			break;
	}
	if(!g_topo) /* the harness only asks for valid geometries and sizes >= 1 */
		sim_violation("C19", "init-failed", "InitializeTopology(geometry %d, %lld x %lld / %lld regions) failed", (int)P.m_topo,
		    (long long)P.m_topo_w, (long long)P.m_topo_h, (long long)P.n_lps);
	if(P.m_topo == TOPOLOGY_GRAPH) {
		struct sim_prng r;
		prng_seed(&r, mix64((uint64_t)P.mseed, 0x70b0));
		lp_id_t n = (lp_id_t)P.n_lps;
		for(lp_id_t i = 0; i < n; i++) {
			unsigned links = (unsigned)prng_below(&r, 4);
			uint64_t seen = 0;
			graph_links[i] = 0;
			for(unsigned k = 0; k < links; k++) {
				/* probabilities need not sum to 1 */
				double pr = prng_below(&r, 3) ? 1.0 / (double)links : (double)prng_below(&r, 101) / 100.0;
				lp_id_t to = prng_below(&r, n);
				rk->AddTopologyLink(g_topo, i, to, pr);
				if(!(seen >> to & 1)) {
					seen |= 1ull << to;
					graph_links[i]++;
				}
			}
		}
	}
}

/* ------------------------------------------------------------------ the reference executor */
static void ref_lp_append(struct ref_lp *R, const struct lp_msg *m, uint64_t dig)
{
	if(R->n_seq == R->cap) {
		R->cap = R->cap ? R->cap * 2 : 64;
		R->seq = realloc(R->seq, R->cap * sizeof(*R->seq));
		R->digest_after = realloc(R->digest_after, R->cap * sizeof(*R->digest_after));
	}
	R->seq[R->n_seq] = (struct ev_rec){m->dest_t, m->m_type, m->pl_size, payload_hash(m->pl, m->pl_size)};
	R->digest_after[R->n_seq] = dig;
	R->n_seq++;
}

void reference_run(void)
{
	lp_id_t n = (lp_id_t)P.n_lps;
	struct rank_api *rk = &RK[0];
	rk->global_config->prng_seed = (uint64_t)P.prng_seed;
	rk->global_config->lps = n;
	memset(REF, 0, sizeof(REF));
	rq_n = rq_head = 0;
	ref_total_events = 0;
	struct lp_msg init_msg;
	memset(&init_msg, 0, sizeof(init_msg));
	init_msg.m_type = LP_INIT;
	lp_id_t untrue = 0;

	for(lp_id_t i = 0; i < n; i++) {
		struct ref_lpx *x = &ref_lps[i];
		memset(x, 0, sizeof(*x));
		x->fake.rng_ctx = &x->rng;
		rk->random_lib_lp_init(i, &x->rng);
		*rk->p_current_lp() = &x->fake;
		ref_cur_lp = i;
		init_msg.dest = i;
		ref_cur_msg = &init_msg;
		model_dispatch(i, 0.0, LP_INIT, NULL, 0, NULL);
		REF[i].digest_init = model_state_digest(x->state);
		REF[i].first_true = -2;
		if(model_can_end(i, x->state)) {
			REF[i].first_true = -1;
			REF[i].first_true_ts = 0;
			REF[i].digest_first_true = REF[i].digest_init;
		} else {
			untrue++;
		}
	}
	ref_all_true = untrue == 0;
	ref_all_true_ts = untrue == 0 ? 0.0 : -1;
	ref_all_true_count = 0;
	ref_stop_ev = NULL;
	ref_stop_lo = ref_stop_hi = 0;
	ref_truncated = false;

	while(rq_head < rq_n) {
		struct lp_msg *m = rq[rq_head++];
		lp_id_t i = m->dest;
		struct ref_lpx *x = &ref_lps[i];
		*rk->p_current_lp() = &x->fake;
		ref_cur_lp = i;
		ref_cur_msg = m;
		uint32_t before = ((struct lp_state *)x->state)->handled;
		model_dispatch(i, m->dest_t, m->m_type, m->pl, m->pl_size, x->state);
		ref_total_events++;
		if(ref_stop_ev && ref_stop_ev != m && !msg_is_before(ref_stop_ev, m))
			ref_stop_hi++;
		REF[i].n_effective += ((struct lp_state *)x->state)->handled != before;
		ref_lp_append(&REF[i], m, model_state_digest(x->state));
		if(REF[i].first_true == -2 && model_can_end(i, x->state)) {
			REF[i].first_true = (long)REF[i].n_seq - 1;
			REF[i].first_true_ts = m->dest_t;
			REF[i].digest_first_true = REF[i].digest_after[REF[i].n_seq - 1];
			if(!--untrue && !ref_all_true) {
				ref_all_true = true;
				ref_all_true_ts = m->dest_t;
				ref_all_true_count = ref_total_events;
				ref_stop_ev = m;
				ref_stop_lo = 1;
				for(size_t k = 0; k + 1 < rq_head; k++)
					ref_stop_lo += msg_is_before(rq[k], m);
				ref_stop_hi = ref_total_events;
			}
		}
		if(P.m_endless && ((ref_all_true && ref_total_events >= ref_all_true_count + 4000) || ref_total_events >= 60000)) {
			/* the sequential execution never ends by itself: what lies beyond this horizon is not known to the oracles */
			ref_truncated = true;
			break;
		}
		if(ref_total_events > 200000) {
			sim_note("MODEL-BUG: event population does not die out");
			sim_finish("harness");
		}
	}
	for(lp_id_t i = 0; i < n; i++)
		REF[i].digest_final = model_state_digest(ref_lps[i].state);
	*rk->p_current_lp() = NULL;
	ref_cur_msg = NULL;
	for(size_t k = 0; k < rq_n; k++)
		free(rq[k]);
	rq_n = rq_head = 0;
}
