/* Access to the per-rank copies of the core.  The core objects are duplicated with
 * objcopy --prefix-symbols=rK_ ; this table is the only way the harness reaches into a copy. */
#pragma once
#include "sim.h"

#include <ROOT-Sim.h>
#include <core/core.h>
#include <lp/lp.h>
#include <lp/msg.h>
#include <lp/process.h>
#include <mm/buddy/buddy.h>
#include <mm/buddy/ckpt.h>
#include <mm/buddy/multi.h>
#include <log/stats.h>

#ifndef VERIF_NRANKS
#define VERIF_NRANKS 1
#endif

struct rank_api {
	/* public API */
	int (*RootsimInit)(const struct simulation_configuration *);
	int (*RootsimRun)(void);
	void (*RootsimStop)(void);
	void (*ScheduleNewEvent)(lp_id_t, simtime_t, unsigned, const void *, unsigned);
	void (*SetState)(void *);
	void *(*rs_malloc)(size_t);
	void *(*rs_calloc)(size_t, size_t);
	void (*rs_free)(void *);
	void *(*rs_realloc)(void *, size_t);
	double (*Random)(void);
	uint64_t (*RandomU64)(void);
	double (*Poisson)(void);
	double (*Normal)(void);
	int (*RandomRange)(int, int);
	int (*RandomRangeNonUniform)(int, int, int);
	double (*Gamma)(unsigned);
	unsigned (*Zipf)(double, unsigned);
	lp_id_t (*CountRegions)(struct topology *);
	lp_id_t (*CountDirections)(lp_id_t, struct topology *);
	lp_id_t (*GetReceiver)(lp_id_t, struct topology *, enum topology_direction);
	void (*ReleaseTopology)(struct topology *);
	bool (*AddTopologyLink)(struct topology *, lp_id_t, lp_id_t, double);
	bool (*IsNeighbor)(lp_id_t, lp_id_t, struct topology *);
	struct topology *(*vInitializeTopology)(enum topology_geometry, int, ...);
	/* internals: real versions of the interposed cross-module calls, and entry points of the unit engines */
	void (*random_lib_lp_init)(lp_id_t, struct rng_ctx *);
	void (*msg_queue_global_init)(void);
	void (*msg_queue_init)(void);
	void (*msg_queue_fini)(void);
	void (*msg_queue_insert)(struct lp_msg *);
	struct lp_msg *(*msg_queue_extract)(void);
	simtime_t (*msg_queue_time_peek)(void);
	void (*msg_allocator_init)(void);
	struct lp_msg *(*msg_allocator_alloc)(unsigned);
	void (*msg_allocator_free)(struct lp_msg *);
	void (*msg_allocator_free_at_gvt)(struct lp_msg *);
	void (*msg_allocator_on_gvt)(simtime_t);
	void (*fossil_lp_collect)(struct lp_ctx *);
	void (*fossil_on_gvt)(simtime_t);
	void (*termination_on_gvt)(simtime_t);
	void (*termination_on_lp_rollback)(struct lp_ctx *, simtime_t);
	void (*termination_on_msg_process)(struct lp_ctx *, simtime_t);
	void (*termination_lp_init)(struct lp_ctx *);
	void (*model_allocator_lp_init)(struct mm_state *);
	void (*model_allocator_lp_fini)(struct mm_state *);
	void (*model_allocator_checkpoint_take)(struct mm_state *, array_count_t);
	array_count_t (*model_allocator_checkpoint_restore)(struct mm_state *, array_count_t);
	array_count_t (*model_allocator_fossil_lp_collect)(struct mm_state *, array_count_t);
	void (*process_lp_init)(struct lp_ctx *);
	void (*process_lp_fini)(struct lp_ctx *);
	void (*process_msg)(void);
	void (*lp_init)(void);
	void (*lp_fini)(void);
	void (*stats_take)(enum stats_thread_type, uint_fast64_t);
	void (*stats_on_gvt)(simtime_t);
	simtime_t (*gvt_phase_run)(void);
	void (*gvt_msg_drain)(void);
	bool (*sync_thread_barrier)(void);
	void (*auto_ckpt_on_gvt)(void);
	void (*auto_ckpt_init)(void);
	void (*stats_global_init)(void);
	void (*stats_init)(void);
	void (*lp_global_init)(void);
	void (*termination_global_init)(void);
	void (*gvt_global_init)(void);
	void (*mpi_remote_msg_handle)(void);
	/* globals */
	struct lp_ctx **lps;
	struct simulation_configuration *global_config;
	nid_t *nid;
	nid_t *n_nodes;
	lp_id_t *n_lps_node;
	uint64_t *lid_node_first;
	/* thread-local variables of the calling thread */
	rid_t *(*p_rid)(void);
	struct lp_ctx **(*p_current_lp)(void);
	uint64_t *(*p_lid_thread_first)(void);
	uint64_t *(*p_lid_thread_end)(void);
};

extern struct rank_api RK[VERIF_NRANKS];

static inline int cur_rank(void) { return vt_self ? vt_self->rank : 0; }
#define RKC (&RK[cur_rank()])
