/* Shadow <mpi.h>: exactly the MPI surface distributed/mpi.c uses, implemented by the simulated
 * transport in fakempi.c.  The core's mpi.c is compiled unchanged against this header. */
#pragma once
#include <stddef.h>
#include <stdint.h>

typedef int MPI_Comm;
typedef int MPI_Datatype;
typedef int MPI_Op;
typedef void *MPI_Request;
typedef void *MPI_Message;
typedef void *MPI_Errhandler;
typedef struct MPI_Status {
	int MPI_SOURCE;
	int MPI_TAG;
	int MPI_ERROR;
	int count_;
} MPI_Status;
typedef void(MPI_Comm_errhandler_function)(MPI_Comm *, int *, ...);

#define MPI_COMM_WORLD 1
#define MPI_REQUEST_NULL ((MPI_Request)0)
#define MPI_STATUS_IGNORE ((MPI_Status *)0)
#define MPI_ANY_SOURCE (-1)
#define MPI_MAX_ERROR_STRING 256
#define MPI_SUCCESS 0
enum { MPI_THREAD_SINGLE, MPI_THREAD_FUNNELED, MPI_THREAD_SERIALIZED, MPI_THREAD_MULTIPLE };
enum { MPI_BYTE = 1, MPI_UINT32_T, MPI_DOUBLE };
enum { MPI_SUM = 1, MPI_MIN };

int MPI_Init_thread(int *argc, char ***argv, int required, int *provided);
int MPI_Finalize(void);
int MPI_Comm_create_errhandler(MPI_Comm_errhandler_function *fn, MPI_Errhandler *eh);
int MPI_Comm_set_errhandler(MPI_Comm comm, MPI_Errhandler eh);
int MPI_Comm_get_errhandler(MPI_Comm comm, MPI_Errhandler *eh);
int MPI_Errhandler_free(MPI_Errhandler *eh);
int MPI_Error_string(int code, char *str, int *len);
int MPI_Comm_rank(MPI_Comm comm, int *rank);
int MPI_Comm_size(MPI_Comm comm, int *size);
int MPI_Isend(const void *buf, int count, MPI_Datatype dt, int dest, int tag, MPI_Comm comm, MPI_Request *req);
int MPI_Request_free(MPI_Request *req);
int MPI_Send(const void *buf, int count, MPI_Datatype dt, int dest, int tag, MPI_Comm comm);
int MPI_Improbe(int source, int tag, MPI_Comm comm, int *flag, MPI_Message *message, MPI_Status *status);
int MPI_Mprobe(int source, int tag, MPI_Comm comm, MPI_Message *message, MPI_Status *status);
int MPI_Get_count(const MPI_Status *status, MPI_Datatype dt, int *count);
int MPI_Mrecv(void *buf, int count, MPI_Datatype dt, MPI_Message *message, MPI_Status *status);
int MPI_Ireduce_scatter_block(const void *sendbuf, void *recvbuf, int recvcount, MPI_Datatype dt, MPI_Op op, MPI_Comm comm, MPI_Request *req);
int MPI_Iallreduce(const void *sendbuf, void *recvbuf, int count, MPI_Datatype dt, MPI_Op op, MPI_Comm comm, MPI_Request *req);
int MPI_Test(MPI_Request *req, int *flag, MPI_Status *status);
int MPI_Barrier(MPI_Comm comm);
