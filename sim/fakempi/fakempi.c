/* Simulated MPI: the weakest semantics MPI-3 allows for what distributed/mpi.c uses.
 *  - one FIFO per (sending thread, destination rank, tag); heads of different FIFOs are matched in
 *    an order chosen by the decision stream; delivery delay is drawn per message
 *  - the payload of an MPI_Isend is read from the sender's buffer at *match* time
 *  - non-blocking collectives read their inputs no earlier than the last join and complete a drawn
 *    number of MPI_Test calls later; the result is written by the successful MPI_Test
 *  - not injected: loss, duplication, corruption, rank crash (MPI guarantees reliable delivery) */
#include "mpi.h"
#include "../sim.h"

#include <stdlib.h>
#include <string.h>

#if defined(__SANITIZE_ADDRESS__)
#include <sanitizer/asan_interface.h>
#define POISONED(p, n) (__asan_region_is_poisoned((void *)(p), (n)) != NULL)
#else
#define POISONED(p, n) 0
#endif

#define NR 8

struct fm_msg {
	int src_rank, src_vt, dst, tag, size;
	const void *buf;
	unsigned char *data;
	uint64_t ready_at, seq;
	struct fm_msg *next;
};
static struct fm_msg *fl_head, *fl_tail;
static uint64_t fm_seq;
uint64_t fm_sent, fm_matched, fm_reordered, fm_empty_probes, fm_delayed, fm_coll, fm_coll_delayed, fm_late_reads;

static int my_rank(void) { return vt_self ? vt_self->rank : 0; }
static bool fair_now(void) { return G.fair_only || G.noprog > 300; }

int MPI_Init_thread(int *argc, char ***argv, int required, int *provided)
{
	(void)argc;
	(void)argv;
	(void)required;
	*provided = MPI_THREAD_MULTIPLE;
	return 0;
}
int MPI_Finalize(void) { return 0; }
int MPI_Comm_create_errhandler(MPI_Comm_errhandler_function *fn, MPI_Errhandler *eh)
{
	*eh = (void *)fn;
	return 0;
}
int MPI_Comm_set_errhandler(MPI_Comm comm, MPI_Errhandler eh)
{
	(void)comm;
	(void)eh;
	return 0;
}
int MPI_Comm_get_errhandler(MPI_Comm comm, MPI_Errhandler *eh)
{
	(void)comm;
	*eh = NULL;
	return 0;
}
int MPI_Errhandler_free(MPI_Errhandler *eh)
{
	*eh = NULL;
	return 0;
}
int MPI_Error_string(int code, char *str, int *len)
{
	*len = snprintf(str, MPI_MAX_ERROR_STRING, "simulated MPI error %d", code);
	return 0;
}
int MPI_Comm_rank(MPI_Comm comm, int *rank)
{
	(void)comm;
	*rank = my_rank();
	return 0;
}
int MPI_Comm_size(MPI_Comm comm, int *size)
{
	(void)comm;
	*size = (int)P.n_ranks;
	return 0;
}

static void enqueue(const void *buf, int count, int dest, int tag, bool eager)
{
	struct fm_msg *m = calloc(1, sizeof(*m));
	m->src_rank = my_rank();
	m->src_vt = vt_self ? vt_self->id : -1;
	m->dst = dest;
	m->tag = tag;
	m->size = count;
	m->seq = fm_seq++;
	if(eager) {
		m->data = malloc(count ? count : 1);
		if(count)
			memcpy(m->data, buf, count);
	} else {
		m->buf = buf;
	}
	int v = 0;
	if(P.mpi_delay > 0) {
		if(!G.replay && !G.fair_only)
			v = (int)prng_below(&G.dec_rng, 4);
		v = sim_commit(DK_MPI_DELAY, 4, v);
	}
	static const int frac[4] = {0, 8, 2, 1};
	m->ready_at = G.sps + (v ? (uint64_t)P.mpi_delay / frac[v] : 0);
	if(v)
		fm_delayed++;
	if(fl_tail)
		fl_tail->next = m;
	else
		fl_head = m;
	fl_tail = m;
	fm_sent++;
	if(g_verbose)
		fprintf(stderr, "MPI sps=%llu send seq=%llu from r%d t%d to r%d size=%d first=%d ready_at=%llu\n", (unsigned long long)G.sps,
		    (unsigned long long)m->seq, m->src_rank, m->src_vt, dest, count, count >= 4 ? *(const int *)buf : -1, (unsigned long long)m->ready_at);
	sim_progress();
	sim_event(0x80, ((uint64_t)dest << 32) | (unsigned)count, m->seq);
}

int MPI_Isend(const void *buf, int count, MPI_Datatype dt, int dest, int tag, MPI_Comm comm, MPI_Request *req)
{
	(void)dt;
	(void)comm;
	enqueue(buf, count, dest, tag, false);
	*req = (void *)1;
	return 0;
}
int MPI_Request_free(MPI_Request *req)
{
	*req = MPI_REQUEST_NULL;
	return 0;
}
int MPI_Send(const void *buf, int count, MPI_Datatype dt, int dest, int tag, MPI_Comm comm)
{
	(void)dt;
	(void)comm;
	enqueue(buf, count, dest, tag, true); /* a standard-mode send may be buffered */
	sim_yield_at("MPI_Send");
	return 0;
}

/* heads of the per-sender FIFOs that can be matched by (dst, tag, source) now */
static int candidates(int dst, int tag, int source, struct fm_msg **out, int max, bool ignore_delay)
{
	int n = 0;
	int seen_vt[VT_MAX + 2], ns = 0;
	for(struct fm_msg *m = fl_head; m; m = m->next) {
		if(m->dst != dst || m->tag != tag)
			continue;
		bool later = false;
		for(int i = 0; i < ns; i++)
			later |= seen_vt[i] == m->src_vt;
		if(later)
			continue; /* MPI's non-overtaking rule, per sending thread */
		if(ns < VT_MAX + 2)
			seen_vt[ns++] = m->src_vt;
		if(source != MPI_ANY_SOURCE && m->src_rank != source)
			continue;
		if(!ignore_delay && m->ready_at > G.sps)
			continue;
		if(n < max)
			out[n++] = m;
	}
	return n;
}

static void unlink_msg(struct fm_msg *x)
{
	struct fm_msg **pp = &fl_head, *prev = NULL;
	while(*pp != x) {
		prev = *pp;
		pp = &(*pp)->next;
	}
	*pp = x->next;
	if(fl_tail == x)
		fl_tail = prev;
	x->next = NULL;
}

static void materialise(struct fm_msg *m)
{
	if(m->data)
		return;
	/* the send buffer is read now: the core relies on GVT to keep it alive until the message is processed */
	if(POISONED(m->buf, (size_t)m->size))
		sim_violation("C06", "buffer-released-in-flight",
		    "the buffer of a message still in MPI flight (size %d, to rank %d) was released by the sender", m->size, m->dst);
	m->data = malloc(m->size ? m->size : 1);
	if(m->size)
		memcpy(m->data, m->buf, m->size);
	if(m->ready_at > 0)
		fm_late_reads++;
}

static int do_probe(int source, int tag, int *flag, MPI_Message *message, MPI_Status *status, bool blocking)
{
	struct fm_msg *c[64];
	int n = candidates(my_rank(), tag, source, c, 64, fair_now() || blocking);
	*flag = 0;
	if(!n)
		return 0;
	if(!blocking && P.mpi_empty_probe > 0) {
		int v = 0;
		if(!G.replay && !fair_now())
			v = (int64_t)prng_below(&G.dec_rng, 100) < P.mpi_empty_probe;
		if(sim_commit(DK_MPI_EMPTY, 2, v)) { /* finite delay: the probe may not see a matchable message yet */
			fm_empty_probes++;
			return 0;
		}
	}
	int v = 0;
	if(n > 1) {
		if(!G.replay)
			v = (int)prng_below(&G.dec_rng, (uint64_t)n);
		v = sim_commit(DK_MPI_PICK, n, v);
		if(v)
			fm_reordered++;
	}
	struct fm_msg *m = c[v];
	unlink_msg(m);
	materialise(m);
	fm_matched++;
	if(g_verbose)
		fprintf(stderr, "MPI sps=%llu match seq=%llu by r%d t%d size=%d first=%d\n", (unsigned long long)G.sps, (unsigned long long)m->seq,
		    my_rank(), vt_self ? vt_self->id : -1, m->size, m->size >= 4 ? *(const int *)m->data : -1);
	sim_progress();
	*flag = 1;
	*message = m;
	if(status) {
		status->MPI_SOURCE = m->src_rank;
		status->MPI_TAG = m->tag;
		status->MPI_ERROR = 0;
		status->count_ = m->size;
	}
	sim_event(0x81, ((uint64_t)m->src_rank << 32) | (unsigned)m->size, m->seq);
	return 0;
}

int MPI_Improbe(int source, int tag, MPI_Comm comm, int *flag, MPI_Message *message, MPI_Status *status)
{
	(void)comm;
	sim_yield_at("MPI_Improbe");
	return do_probe(source, tag, flag, message, status, false);
}

struct probe_wait {
	int rank, source, tag;
};
static int probe_pred(void *arg)
{
	struct probe_wait *w = arg;
	struct fm_msg *c[2];
	return candidates(w->rank, w->tag, w->source, c, 2, true) > 0;
}

int MPI_Mprobe(int source, int tag, MPI_Comm comm, MPI_Message *message, MPI_Status *status)
{
	(void)comm;
	struct probe_wait w = {my_rank(), source, tag};
	sim_block_until(probe_pred, &w, "MPI_Mprobe");
	int flag;
	do_probe(source, tag, &flag, message, status, true);
	return 0;
}

int MPI_Get_count(const MPI_Status *status, MPI_Datatype dt, int *count)
{
	(void)dt;
	*count = status->count_;
	return 0;
}

int MPI_Mrecv(void *buf, int count, MPI_Datatype dt, MPI_Message *message, MPI_Status *status)
{
	(void)dt;
	(void)status;
	struct fm_msg *m = *message;
	if(m->size && count)
		memcpy(buf, m->data, count < m->size ? count : m->size);
	free(m->data);
	free(m);
	*message = NULL;
	return 0;
}

/* smallest timestamp of an event or anti-message that has been sent and not yet matched (C04) */
double fakempi_min_in_flight(void)
{
	double mn = __builtin_inf();
	for(struct fm_msg *m = fl_head; m; m = m->next) {
		if(m->tag != 0 || m->size < 16)
			continue;
		const unsigned char *p = m->data ? m->data : m->buf;
		if(!m->data && POISONED(p, 16))
			continue; /* reported when the message is matched */
		double t;
		memcpy(&t, p + 8, sizeof(t)); /* remote data starts at lp_msg.dest; dest_t follows */
		if(t < mn)
			mn = t;
	}
	return mn;
}

bool fakempi_buffer_in_flight(const void *lo, const void *hi)
{
	for(struct fm_msg *m = fl_head; m; m = m->next)
		if(!m->data && (const char *)m->buf >= (const char *)lo && (const char *)m->buf < (const char *)hi)
			return true;
	return false;
}

unsigned fakempi_in_flight(void)
{
	unsigned n = 0;
	for(struct fm_msg *m = fl_head; m; m = m->next)
		n++;
	return n;
}

/* ------------------------------------------------------------------ collectives */
enum coll_kind { COLL_RSB = 1, COLL_ALLRED, COLL_BARRIER };
struct coll {
	int kind;
	int joined;
	bool in[NR];
	const void *sbuf[NR];
	void *rbuf[NR];
	bool captured;
	uint32_t sum[NR];
	double mn;
	int tests_left[NR];
	int done;
};
#define COLL_MAX 8192
static struct coll *colls[3][COLL_MAX];
static unsigned coll_next[3][NR]; /* per kind and rank: index of the next instance this rank joins */

static struct coll *coll_join(int kind, const void *sbuf, void *rbuf, MPI_Request *req)
{
	int r = my_rank();
	unsigned k = coll_next[kind - 1][r]++;
	if(k >= COLL_MAX) {
		fprintf(stderr, "fakempi: too many collectives\n");
		abort();
	}
	struct coll *c = colls[kind - 1][k];
	if(!c)
		c = colls[kind - 1][k] = calloc(1, sizeof(*c));
	c->kind = kind;
	if(c->in[r])
		sim_violation("C02", "collective-reentered", "rank %d joined the same collective twice", r);
	c->in[r] = true;
	c->sbuf[r] = sbuf;
	c->rbuf[r] = rbuf;
	c->joined++;
	int v = 0;
	if(P.mpi_coll_delay > 0) {
		if(!G.replay && !G.fair_only)
			v = (int)prng_below(&G.dec_rng, 4);
		v = sim_commit(DK_MPI_COLL, 4, v);
	}
	static const int frac[4] = {0, 8, 2, 1};
	c->tests_left[r] = v ? (int)(P.mpi_coll_delay / frac[v]) : 0;
	if(v)
		fm_coll_delayed++;
	fm_coll++;
	sim_progress();
	sim_event(0x82, (uint64_t)kind, k);
	if(req)
		*req = c;
	return c;
}

int MPI_Ireduce_scatter_block(const void *sendbuf, void *recvbuf, int recvcount, MPI_Datatype dt, MPI_Op op, MPI_Comm comm, MPI_Request *req)
{
	(void)recvcount;
	(void)dt;
	(void)op;
	(void)comm;
	coll_join(COLL_RSB, sendbuf, recvbuf, req);
	return 0;
}

int MPI_Iallreduce(const void *sendbuf, void *recvbuf, int count, MPI_Datatype dt, MPI_Op op, MPI_Comm comm, MPI_Request *req)
{
	(void)count;
	(void)dt;
	(void)op;
	(void)comm;
	coll_join(COLL_ALLRED, sendbuf, recvbuf, req);
	return 0;
}

int MPI_Test(MPI_Request *req, int *flag, MPI_Status *status)
{
	(void)status;
	sim_yield_at("MPI_Test");
	*flag = 0;
	struct coll *c = *req;
	if(!c) {
		*flag = 1;
		return 0;
	}
	int r = my_rank(), n = (int)P.n_ranks;
	if(c->joined < n)
		return 0;
	if(c->tests_left[r] > 0 && !fair_now()) {
		c->tests_left[r]--;
		return 0;
	}
	if(!c->captured) { /* inputs are read no earlier than the last join */
		c->captured = true;
		if(c->kind == COLL_RSB) {
			for(int j = 0; j < n; j++) {
				c->sum[j] = 0;
				for(int i = 0; i < n; i++)
					c->sum[j] += ((const volatile uint32_t *)c->sbuf[i])[j];
			}
		} else {
			c->mn = *(const volatile double *)c->sbuf[0];
			for(int i = 1; i < n; i++) {
				double x = *(const volatile double *)c->sbuf[i];
				c->mn = x < c->mn ? x : c->mn;
			}
		}
	}
	if(c->kind == COLL_RSB)
		*(uint32_t *)c->rbuf[r] = c->sum[r];
	else
		*(double *)c->rbuf[r] = c->mn;
	*flag = 1;
	*req = MPI_REQUEST_NULL;
	sim_progress();
	sim_event(0x83, (uint64_t)c->kind, (uint64_t)r);
	return 0;
}

static int barrier_pred(void *arg) { return ((struct coll *)arg)->joined >= (int)P.n_ranks; }

int MPI_Barrier(MPI_Comm comm)
{
	(void)comm;
	struct coll *c = coll_join(COLL_BARRIER, NULL, NULL, NULL);
	sim_block_until(barrier_pred, c, "MPI_Barrier");
	return 0;
}
