/* tw-sim: the whole runtime (serial / threads / ranks x threads) under the scheduler, with the
 * monitors of C01-C11, C13, C14, C19, C20 attached through link-level interposition. */
#include "model.h"

#include <datatypes/msg_queue.h>
#include <gvt/fossil.h>
#include <gvt/gvt.h>
#include <gvt/termination.h>
#include <mm/model_allocator.h>
#include <mm/msg_allocator.h>

#include <math.h>
#include <stdlib.h>
#include <string.h>
#include <unistd.h>

/* ------------------------------------------------------------------ monitor state */
struct tctx { /* per simulated thread */
	double last_gvt;
	unsigned n_gvt;
	bool silent;      /* between checkpoint restore and the end of do_rollback */
	bool in_term_gvt; /* inside termination_on_gvt */
	bool in_round;    /* between this thread's first phase-A visit of a reduction and the end of that reduction */
	double round_min; /* smallest timestamp it extracted or was rolled back to meanwhile */
	double round_min_ts_at;
	double term_gvt;
	unsigned votes;
	uint64_t forward, silent_n, rollbacks, undone, ckpts, antis; /* since the last stats record */
	uint64_t undone_h, antis_h; /* the same two, derived by the harness from the history arrays */
	bool lp_init_done;
	uint64_t first, end;
	int rid;
	/* C20: what the harness saw between two statistics records of this thread */
	struct obs_rec {
		uint64_t fw, rb, undone, sil, ck, anti;
		double gvt;
	} *obs;
	unsigned n_obs, cap_obs;
	uint64_t serial_fw_seen;
	bool serial_first_rec;
};
static struct tctx TC[VT_MAX];

struct cstream_ent {
	struct ev_rec e;
};

struct lpmon {
	int init_count, fini_count;
	int owner_vt, owner_rank;
	uint64_t fini_digest;
	bool fini_pred;
	/* C03 */
	size_t committed; /* events of REF[lp].seq confirmed as committed */
	/* C05: digest of the state right after the event whose history index is i (absolute index = base + i) */
	uint64_t *hist_digest;
	uint64_t (*hist_parts)[3];
	size_t hist_cap;
	size_t hist_base; /* number of history entries removed by fossil collection so far */
	uint64_t forward;
	/* C20: number of processed / total entries the harness believes the history holds */
	uint64_t trk_proc, trk_total;
	/* C07: history index of the event at which the runtime latched "this LP has terminated" (0 = not latched) */
	size_t latch_idx;
	bool commit_broken;
};
static struct lpmon LM[MODEL_MAX_LPS];

#define GVT_ROUNDS_MAX 4096
static struct {
	double round_gvt[GVT_ROUNDS_MAX];
	unsigned rounds_known;
	bool stop_called;
	bool stop_injected;
	int ranks_returned;
	int workers_inited;
	uint64_t n_forward, n_silent, n_rollbacks, n_undone, n_ckpt, n_anti, n_extract, n_insert, n_fossil, n_committed;
	uint64_t max_rb_depth;
	double final_gvt;
	bool hang_after_decision;
	unsigned *thr_to_end[VERIF_NRANKS];
	unsigned *c_b[VERIF_NRANKS];
	unsigned *c_d[VERIF_NRANKS];
	double unlatched; /* the value of lp_ctx.termination_t that means "not terminated" (learnt at LP initialisation) */
	int *nodes_to_end[VERIF_NRANKS];
	char stats_path[256];
} M;

/* shadow of every message sitting between msg_queue_insert and msg_queue_extract: open-addressing set keyed by address */
#define PEND_CAP (1u << 19)
static struct pend_ent {
	struct lp_msg *m;
	double ts;
} pend[PEND_CAP];
static unsigned pend_n;

static inline unsigned pend_slot(const struct lp_msg *m) { return (unsigned)(((uintptr_t)m >> 4) * 2654435761u) & (PEND_CAP - 1); }

static struct pend_ent *pend_find(const struct lp_msg *m)
{
	for(unsigned i = pend_slot(m);; i = (i + 1) & (PEND_CAP - 1)) {
		if(pend[i].m == m)
			return &pend[i];
		if(!pend[i].m)
			return NULL;
	}
}

static void pend_add(struct lp_msg *m)
{
	if(pend_find(m))
		sim_violation("C06", "double-insert", "message %p (t=%g) inserted while already queued", (void *)m, m->dest_t);
	if(pend_n >= PEND_CAP / 2)
		sim_finish("skip"); /* a thrashing run outgrew the harness; neither ok nor a violation */
	unsigned i = pend_slot(m);
	while(pend[i].m)
		i = (i + 1) & (PEND_CAP - 1);
	pend[i].m = m;
	pend[i].ts = m->dest_t;
	pend_n++;
}

static void pend_remove(struct pend_ent *e)
{
	unsigned i = (unsigned)(e - pend);
	pend[i].m = NULL;
	pend_n--;
	/* backward-shift deletion keeps probe sequences intact */
	for(unsigned j = (i + 1) & (PEND_CAP - 1); pend[j].m; j = (j + 1) & (PEND_CAP - 1)) {
		unsigned k = pend_slot(pend[j].m);
		if((i <= j) ? (k <= i || k > j) : (k <= i && k > j)) {
			pend[i] = pend[j];
			pend[j].m = NULL;
			i = j;
		}
	}
}

static void pend_del(struct lp_msg *m)
{
	struct pend_ent *e = pend_find(m);
	if(!e)
		sim_violation("C15", "extract-unknown", "extracted message %p was never inserted", (void *)m);
	pend_remove(e);
}

extern double fakempi_min_in_flight(void) __attribute__((weak));
extern uint64_t fm_sent __attribute__((weak)), fm_matched __attribute__((weak)), fm_reordered __attribute__((weak)),
    fm_empty_probes __attribute__((weak)), fm_delayed __attribute__((weak)), fm_coll __attribute__((weak)),
    fm_coll_delayed __attribute__((weak)), fm_late_reads __attribute__((weak));
static void ea_on_extract(struct lp_msg *m);

static inline uint64_t dbl_bits_(double d)
{
	uint64_t u;
	memcpy(&u, &d, 8);
	return u;
}

static inline struct tctx *tc(void) { return &TC[vt_self->id]; }
static inline struct lp_ctx *lp_of(int rank, lp_id_t i) { return &(*RK[rank].lps)[i]; }
static inline bool tw_parallel(void) { return !P.serial; }

/* ------------------------------------------------------------------ model callbacks */
static bool serial_started;
static double serial_last_ts = -1;
static __thread bool in_queue_fini;
static __thread struct lp_ctx *releasing_history_of; /* fossil collection / finalisation of this LP is releasing its own entries */

void eng_on_init(lp_id_t me)
{
	if(!vt_self)
		return;
	struct lpmon *L = &LM[me];
	if(L->init_count++)
		sim_violation("C14", "double-init", "LP %llu initialised twice", (unsigned long long)me);
	L->owner_vt = vt_self->id;
	L->owner_rank = vt_self->rank;
	if(!P.serial)
		TC[vt_self->id].forward++;
	sim_event(0x11, me, (uint64_t)vt_self->id);
	sim_progress();
	if(P.serial && serial_started)
		sim_violation("C10", "init-order", "LP_INIT of LP %llu after the first event", (unsigned long long)me);
}

void eng_on_fini(lp_id_t me, const struct lp_state *s)
{
	if(!vt_self)
		return;
	struct lpmon *L = &LM[me];
	if(L->fini_count++)
		sim_violation("C08", "double-fini", "LP_FINI delivered twice to LP %llu", (unsigned long long)me);
	if(L->owner_vt != vt_self->id)
		sim_violation("C14", "foreign-fini", "LP %llu finalised by thread %d, initialised by %d", (unsigned long long)me,
		    vt_self->id, L->owner_vt);
	L->fini_digest = model_state_digest(s);
	L->fini_pred = model_can_end(me, s);
	sim_event(0x12, me, L->fini_digest);
	sim_progress();
}

static uint64_t system_digest(int rank, lp_id_t me);
static uint64_t live_set_summary(const struct mm_state *mm);

void eng_on_dispatch(lp_id_t me, simtime_t now, unsigned type, const void *content, unsigned size, void *st, bool before)
{
	if(!vt_self)
		return;
	struct lpmon *L = &LM[me];
	if(before) {
		sim_progress();
		if(L->owner_vt != vt_self->id)
			sim_violation("C14", "foreign-dispatch", "event of LP %llu executed by thread %d, owner is %d",
			    (unsigned long long)me, vt_self->id, L->owner_vt);
		if(P.serial) {
			/* C10: global order and per-LP sequence against the reference */
			serial_started = true;
			struct ref_lp *R = &REF[me];
			size_t k = L->committed++;
			uint64_t ph = payload_hash(content, size);
			if(k >= R->n_seq)
				sim_violation("C10", "extra-event", "LP %llu got event #%zu (t=%g type=%u) the reference never delivers",
				    (unsigned long long)me, k, now, type);
			struct ev_rec *e = &R->seq[k];
			if(e->ts != now || e->type != type || e->pl_size != size || e->pl_hash != ph)
				sim_violation("C10", "sequence-mismatch",
				    "LP %llu event #%zu is (t=%g type=%u size=%u), reference has (t=%g type=%u size=%u)",
				    (unsigned long long)me, k, now, type, size, e->ts, e->type, e->pl_size);
			if(now < serial_last_ts)
				sim_violation("C10", "time-order", "event at t=%g dispatched after t=%g", now, serial_last_ts);
			serial_last_ts = now;
			M.n_forward++;
			sim_event(0x20, me, dbl_bits_(now));
			return;
		}
		struct tctx *c = tc();
		if(c->silent) {
			c->silent_n++;
			M.n_silent++;
			sim_event(0x22, me, 0);
		} else {
			c->forward++;
			L->forward++;
			M.n_forward++;
			sim_event(0x21, me, ((uint64_t)type << 32) ^ size);
		}
		return;
	}
	(void)st;
	if(P.serial)
		return;
	struct tctx *c = tc();
	if(!c->silent) {
		/* C05: remember the state right after this event; its history index is the count after the push */
		struct lp_ctx *lp = lp_of(vt_self->rank, me);
		size_t idx = (size_t)array_count(lp->p.p_msgs) + 1;
		if(idx >= L->hist_cap) {
			size_t nc = L->hist_cap ? L->hist_cap * 2 : 256;
			while(nc <= idx)
				nc *= 2;
			L->hist_digest = realloc(L->hist_digest, nc * sizeof(uint64_t));
			memset(L->hist_digest + L->hist_cap, 0, (nc - L->hist_cap) * sizeof(uint64_t));
			L->hist_parts = realloc(L->hist_parts, nc * sizeof(*L->hist_parts));
			L->hist_cap = nc;
		}
		L->hist_digest[idx] = system_digest(vt_self->rank, me);
		L->trk_proc++;
		L->trk_total = idx;
		L->hist_parts[idx][0] = model_state_digest(lp->state_pointer);
		L->hist_parts[idx][1] = lp->rng_ctx ? lp->rng_ctx->state[0] : 0;
		L->hist_parts[idx][2] = live_set_summary(&lp->mm_state);
	}
}

void eng_topo_violation(const char *what, lp_id_t from, long a, long b)
{
	sim_violation("C19", what, "geometry=%lld %lldx%lld regions=%lld from=%llu a=%ld b=%ld", (long long)P.m_topo,
	    (long long)P.m_topo_w, (long long)P.m_topo_h, (long long)P.n_lps, (unsigned long long)from, a, b);
}

/* ------------------------------------------------------------------ C05: what "the state of the LP" is */
#define buddy_visit_allocated(longest, fn)                                                                             \
	do {                                                                                                           \
		unsigned stack_i[64], stack_l[64], sp_ = 0;                                                            \
		stack_i[0] = 0;                                                                                        \
		stack_l[0] = B_TOTAL_EXP;                                                                              \
		sp_ = 1;                                                                                               \
		while(sp_) {                                                                                           \
			unsigned i_ = stack_i[--sp_], l_ = stack_l[sp_];                                               \
			unsigned lon_ = (longest)[i_];                                                                 \
			if(!lon_) {                                                                                    \
				fn(i_, l_);                                                                            \
			} else if(lon_ != l_ && l_ > B_BLOCK_EXP) {                                                    \
				stack_i[sp_] = buddy_left_child(i_);                                                   \
				stack_l[sp_++] = l_ - 1;                                                               \
				stack_i[sp_] = buddy_right_child(i_);                                                  \
				stack_l[sp_++] = l_ - 1;                                                               \
			}                                                                                              \
		}                                                                                                      \
	} while(0)

static uint64_t live_set_summary(const struct mm_state *mm)
{
	uint64_t sum = 0;
	for(array_count_t b = 0; b < array_count(mm->buddies); b++) {
		const struct buddy_state *bs = array_get_at(mm->buddies, b);
#define ADD_NODE(i, l) sum += 1ull << (l) /* bytes: two allocated siblings read as one allocated parent in the tree */
		buddy_visit_allocated(bs->longest, ADD_NODE);
#undef ADD_NODE
	}
	return sum;
}

static uint64_t system_digest(int rank, lp_id_t me)
{
	struct lp_ctx *lp = lp_of(rank, me);
	uint64_t h = model_state_digest(lp->state_pointer);
	for(int k = 0; k < 4; k++)
		h = mix64(h, lp->rng_ctx ? lp->rng_ctx->state[k] : 0); /* a runtime may create the generator lazily */
	h = mix64(h, live_set_summary(&lp->mm_state));
	return h;
}

/* ------------------------------------------------------------------ wrappers (cross-module calls of the core) */
/* ------------------------------------------------------------------ drv: one worker driven by the harness
 * The harness plays the rest of the world for a single worker thread: every message the runtime inserts is held back and
 * delivered later in an order drawn from the decision stream (so stragglers and late anti-messages are the norm), and the GVT is
 * announced at arbitrary instants with any legal value (at most the smallest timestamp still unprocessed or held). */
#define HELD_MAX 4096
static struct lp_msg *held[HELD_MAX], *inq[HELD_MAX];
static unsigned held_n, inq_n;
static bool drv_mode, drv_releasing;
static uint64_t drv_released, drv_gvts, drv_stragglers_hint;

void verif_wrap_msg_queue_insert(struct lp_msg *msg)
{
	if(drv_mode && !drv_releasing) {
		if(held_n >= HELD_MAX)
			sim_finish("skip");
		for(unsigned i = 0; i < held_n; i++)
			if(held[i] == msg)
				sim_violation("C06", "double-insert", "message %p (t=%g) inserted while already queued", (void *)msg, msg->dest_t);
		held[held_n++] = msg;
		sim_event(0x32, msg->dest, dbl_bits_(msg->dest_t));
		return;
	}
	M.n_insert++;
	pend_add(msg);
	sim_event(0x30, msg->dest, dbl_bits_(msg->dest_t));
	sim_progress();
	RKC->msg_queue_insert(msg);
}

struct lp_msg *verif_wrap_msg_queue_extract(void)
{
	struct lp_msg *m = RKC->msg_queue_extract();
	if(tw_parallel() && P.n_ranks > 1)
		ea_on_extract(m);
	if(!m)
		return m;
	if(drv_mode)
		for(unsigned i = 0; i < inq_n; i++)
			if(inq[i] == m) {
				inq[i] = inq[--inq_n];
				break;
			}
	sim_progress();
	M.n_extract++;
	pend_del(m);
	struct tctx *c = tc();
	if(g_verbose)
		fprintf(stderr, "DBG sps=%llu t%d r%d extract t=%g lp=%llu flags=%u in_round=%d\n", (unsigned long long)G.sps, vt_self->id, vt_self->rank,
		    m->dest_t, (unsigned long long)m->dest, m->raw_flags, c->in_round);
	if(c->in_round && m->dest_t < c->round_min)
		c->round_min = m->dest_t;
	if(m->dest_t < c->last_gvt)
		sim_violation_soft("C04", "extract-below-gvt", "thread %d extracted a message with t=%g after being told GVT=%g",
		    vt_self->id, m->dest_t, c->last_gvt);
	lp_id_t d = m->dest;
	if(d >= (lp_id_t)P.n_lps || LM[d].owner_vt != vt_self->id || LM[d].init_count != 1)
		sim_violation("C14", "misrouted", "thread %d (rank %d) extracted an event for LP %llu owned by thread %d",
		    vt_self->id, vt_self->rank, (unsigned long long)d, d < (lp_id_t)P.n_lps ? LM[d].owner_vt : -1);
	if(lp_of(vt_self->rank, d)->p.early_antis)
		probe_hit("early_anti_listed");
	sim_event(0x31, d, dbl_bits_(m->dest_t));
	return m;
}

simtime_t verif_wrap_msg_queue_time_peek(void) { return RKC->msg_queue_time_peek(); }

static void check_pending_above(double g, const char *when)
{
	for(unsigned i = 0, seen = 0; i < PEND_CAP && seen < pend_n; i++) {
		if(!pend[i].m)
			continue;
		seen++;
		if(pend[i].ts < g)
			sim_violation_soft("C04", "pending-below-gvt", "%s GVT=%g while a message with t=%g is still queued (dest LP %llu)",
			    when, g, pend[i].ts, (unsigned long long)pend[i].m->dest);
	}
	if(fakempi_min_in_flight) {
		double f = fakempi_min_in_flight();
		if(f < g)
			sim_violation_soft("C04", "in-flight-below-gvt", "%s GVT=%g while a message with t=%g is in MPI flight", when, g, f);
	}
}

void verif_wrap_termination_on_gvt(simtime_t g)
{
	struct tctx *c = tc();
	if(g < c->last_gvt)
		sim_violation_soft("C04", "gvt-decreased", "thread %d was told GVT=%g after GVT=%g", vt_self->id, g, c->last_gvt);
	unsigned k = c->n_gvt++;
	if(k < GVT_ROUNDS_MAX) {
		if(k >= M.rounds_known) {
			M.round_gvt[k] = g;
			M.rounds_known = k + 1;
		} else if(M.round_gvt[k] != g) {
			sim_violation_soft("C04", "gvt-disagree", "round %u: thread %d was told GVT=%g, another thread %g", k, vt_self->id, g,
			    M.round_gvt[k]);
		}
	}
	if(g_verbose)
		fprintf(stderr, "DBG sps=%llu t%d r%d REPORT g=%g in_round=%d round_min=%g\n", (unsigned long long)G.sps, vt_self->id, vt_self->rank, g,
		    c->in_round, c->round_min);
	if(c->in_round && c->round_min < g)
		sim_violation_soft("C04", "gvt-above-own-extraction",
		    "thread %d is told GVT=%g although it extracted a message with t=%g after it had joined this reduction", vt_self->id, g,
		    c->round_min);
	c->in_round = false;
	c->last_gvt = g;
	M.final_gvt = g > M.final_gvt ? g : M.final_gvt;
	check_pending_above(g, "reported");
	probe_hit("gvt_reports");
	sim_event(0x40, (uint64_t)vt_self->id, dbl_bits_(g));
	c->in_term_gvt = true;
	c->term_gvt = g;
	RKC->termination_on_gvt(g);
	c->in_term_gvt = false;
}

/* called by the scheduler for every atomic operation: lets monitors recognise specific variables */
void engine_on_sp(struct vthread *t, int kind, const volatile void *addr)
{
	if(P.engine >= 1 && P.engine <= 3)
		return;
	{
		/* __func__ strings are per rank copy of the core */
		static const char *f_thread_phase_r[VERIF_NRANKS], *f_node_phase_r[VERIF_NRANKS];
		const char *fn = t->sp_func;
		int rk_ = t->rank < VERIF_NRANKS ? t->rank : 0;
		if(fn && fn != f_thread_phase_r[rk_] && fn != f_node_phase_r[rk_]) {
			if(!f_thread_phase_r[rk_] && !strcmp(fn, "gvt_thread_phase_run"))
				f_thread_phase_r[rk_] = fn;
			else if(!f_node_phase_r[rk_] && !strcmp(fn, "gvt_node_phase_run"))
				f_node_phase_r[rk_] = fn;
		}
		const char *f_thread_phase = f_thread_phase_r[rk_], *f_node_phase = f_node_phase_r[rk_];
		struct tctx *c = &TC[t->id];
		if(g_verbose && fn && (fn == f_thread_phase || fn == f_node_phase))
			fprintf(stderr, "DBG sps=%llu t%d r%d %s:%d kind=%d val=%u\n", (unsigned long long)G.sps, t->id, t->rank, fn, t->sp_line, kind,
			    *(volatile unsigned *)addr);
		if(fn && fn == f_thread_phase && !c->in_round) {
			c->in_round = true; /* from here on everything this thread extracts is covered by its accumulator */
			c->round_min = __builtin_inf();
		} else if(fn && fn == f_node_phase && kind == VSP_FSUB_K && t->rank < VERIF_NRANKS && addr == (void *)M.c_d[t->rank]) {
			c->in_round = false; /* node_done: the reduction is over for this thread */
		}
	}
	if(kind != VSP_FSUB_K || t->rank >= VERIF_NRANKS || addr != (void *)M.thr_to_end[t->rank])
		return;
	struct tctx *c = &TC[t->id];
	if(!c->in_term_gvt)
		return;
	/* this thread votes for termination at GVT g */
	double g = c->term_gvt;
	c->votes++;
	probe_hit("votes");
	/* "the GVT has reached the configured termination time"; none configured = SIMTIME_MAX, reached when no event is left anywhere */
	if(g >= (P.term_time_q > 0 ? term_time() : SIMTIME_MAX))
		return;
	for(lp_id_t i = c->first; i < c->end; i++) {
		struct ref_lp *R = &REF[i];
		if(R->first_true == -2)
			sim_violation_soft("C07", "vote-never-true", "thread %d voted at GVT=%g but LP %llu never satisfies its predicate",
			    t->id, g, (unsigned long long)i);
		if(R->first_true >= 0 && !(R->first_true_ts < g))
			sim_violation_soft("C07", "vote-premature",
			    "thread %d voted at GVT=%g but the predicate of LP %llu first holds at t=%g (event #%ld)", t->id, g,
			    (unsigned long long)i, R->first_true_ts, R->first_true);
	}
}

void verif_wrap_termination_on_lp_rollback(struct lp_ctx *lp, simtime_t msg_time)
{
	struct tctx *c = tc();
	int rank = vt_self->rank;
	lp_id_t me = (lp_id_t)(lp - *RK[rank].lps);
	c->silent = false;
	c->rollbacks++;
	M.n_rollbacks++;
	if(c->in_round && msg_time < c->round_min)
		c->round_min = msg_time;
	if(msg_time < c->last_gvt)
		sim_violation_soft("C04", "rollback-below-gvt", "LP %llu rolled back to t=%g after its thread was told GVT=%g",
		    (unsigned long long)me, msg_time, c->last_gvt);
	/* C05: restore + coast-forward must reproduce the state recorded at this history index */
	struct lpmon *L = &LM[me];
	size_t idx = array_count(lp->p.p_msgs);
	{
		uint64_t proc_now = 0;
		for(array_count_t k = 0; k < array_count(lp->p.p_msgs); k++)
			proc_now += is_msg_past(array_get_at(lp->p.p_msgs, k));
		uint64_t undone = L->trk_proc - proc_now, removed = L->trk_total - idx;
		c->undone_h += undone;
		c->antis_h += removed - undone;
		L->trk_proc = proc_now;
		L->trk_total = idx;
	}
	/* C03: the history is what will be declared committed: after a rollback caused by a message with timestamp msg_time nothing that
	 * was processed with a later timestamp may remain in it */
	for(array_count_t k = 0; k < array_count(lp->p.p_msgs); k++) {
		const struct lp_msg *hm = array_get_at(lp->p.p_msgs, k);
		if(is_msg_past(hm) && hm->dest_t > msg_time) {
			sim_violation_soft("C03", "rollback-too-shallow",
			    "LP %llu: after the rollback caused by a message at t=%g the history still holds a processed event at t=%g (entry %u)",
			    (unsigned long long)me, msg_time, hm->dest_t, (unsigned)k);
			break;
		}
	}
	/* C06: a history ends with a processed event; sent entries after it belong to an execution that is no longer there */
	if(idx && !is_msg_past(array_get_at(lp->p.p_msgs, idx - 1)))
		sim_violation_soft("C06", "undone-send-kept",
		    "LP %llu: after a rollback (t=%g) the history ends with a sent entry: the event it was sent by has been undone, the send has not been cancelled",
		    (unsigned long long)me, msg_time);
	/* the state does not change between a processed entry and the sent entries that follow it */
	size_t didx = idx;
	while(didx < L->hist_cap && !L->hist_digest[didx] && didx && !is_msg_past(array_get_at(lp->p.p_msgs, didx - 1)))
		didx--;
	if(didx < L->hist_cap && L->hist_digest[didx]) {
		uint64_t now = system_digest(rank, me);
		if(now != L->hist_digest[didx])
			sim_violation_soft("C05", "state-after-rollback",
			    "LP %llu: state after rollback to history index %zu (t<%g) differs from the state recorded there "
			    "(differs: model=%d rng=%d live-set=%d)",
			    (unsigned long long)me, idx, msg_time, model_state_digest(lp->state_pointer) != L->hist_parts[didx][0],
			    (lp->rng_ctx ? lp->rng_ctx->state[0] : 0) != L->hist_parts[didx][1], live_set_summary(&lp->mm_state) != L->hist_parts[didx][2]);
		probe_hit("rb_state_checked");
	} else {
		probe_hit("rb_state_unchecked");
	}
	/* entries above the rollback point are void now */
	for(size_t k = idx + 1; k < L->hist_cap; k++) {
		if(!L->hist_digest[k])
			break;
		L->hist_digest[k] = 0;
	}
	sim_event(0x50, me, dbl_bits_(msg_time));
	RKC->termination_on_lp_rollback(lp, msg_time);
	/* C07: if the event at which the runtime latched the termination of this LP has just been undone, the latch must go too */
	if(L->latch_idx > idx) {
		if(lp->termination_t != M.unlatched && lp->termination_t != SIMTIME_MAX)
			sim_violation_soft("C07", "stale-termination",
			    "LP %llu: the event (history index %zu) on which its termination was latched was undone by a rollback to index %zu (t=%g), "
			    "but the LP is still marked terminated at t=%g", (unsigned long long)me, L->latch_idx, idx, msg_time, lp->termination_t);
		L->latch_idx = 0;
		probe_hit("latch_undone");
	}
}

void verif_wrap_termination_on_msg_process(struct lp_ctx *lp, simtime_t msg_time)
{
	simtime_t before = lp->termination_t;
	RKC->termination_on_msg_process(lp, msg_time);
	if(before == M.unlatched && lp->termination_t != M.unlatched) {
		lp_id_t me = (lp_id_t)(lp - *RK[vt_self->rank].lps);
		LM[me].latch_idx = array_count(lp->p.p_msgs); /* the event has already been pushed */
	}
}

void verif_wrap_model_allocator_checkpoint_take(struct mm_state *self, array_count_t ref_i)
{
	tc()->ckpts++;
	M.n_ckpt++;
	RKC->model_allocator_checkpoint_take(self, ref_i);
}

array_count_t verif_wrap_model_allocator_checkpoint_restore(struct mm_state *self, array_count_t ref_i)
{
	array_count_t n_logs = array_count(self->logs);
	array_count_t r = RKC->model_allocator_checkpoint_restore(self, ref_i);
	struct tctx *c = tc();
	c->silent = true;
	if(r > ref_i)
		sim_violation("C05", "restore-after-target", "restore to index %u used a checkpoint taken at %u", ref_i, r);
	if(r == ref_i)
		probe_hit("rb_on_ckpt");
	else
		probe_hit("rb_coast");
	if(n_logs - array_count(self->logs) >= 2)
		probe_hit("rb_deep");
	if(array_count(self->logs) == 1)
		probe_hit("rb_to_oldest_ckpt");
	if(ref_i - r > M.max_rb_depth)
		M.max_rb_depth = ref_i - r;
	return r;
}

array_count_t verif_wrap_model_allocator_fossil_lp_collect(struct mm_state *self, array_count_t tgt)
{
	array_count_t r = RKC->model_allocator_fossil_lp_collect(self, tgt);
	if(r > tgt)
		sim_violation("C13", "fossil-beyond-target", "allocator released history up to %u, asked for at most %u", r, tgt);
	if(!array_count(self->logs))
		sim_violation("C13", "no-checkpoint-left", "fossil collection kept no checkpoint");
	if(array_get_at(self->logs, 0).ref_i != 0)
		sim_violation("C13", "history-not-at-checkpoint", "oldest kept checkpoint has reference %u after re-basing",
		    array_get_at(self->logs, 0).ref_i);
	for(array_count_t i = 1; i < array_count(self->logs); i++)
		if(array_get_at(self->logs, i).ref_i < array_get_at(self->logs, i - 1).ref_i)
			sim_violation("C13", "refs-not-monotone", "checkpoint references out of order after fossil collection");
	return r;
}

#define COMMIT_VIOLATION(cls, ...)                                                                                     \
	do {                                                                                                           \
		sim_violation_soft("C03", cls, __VA_ARGS__);                                                           \
		L->commit_broken = true; /* everything after it would mismatch too */                                  \
		return;                                                                                                \
	} while(0)

static void commit_entry(lp_id_t me, const struct ev_rec *e, double gvt, const char *where)
{
	struct lpmon *L = &LM[me];
	struct ref_lp *R = &REF[me];
	size_t k = L->committed;
	if(L->commit_broken)
		return;
	if(k >= R->n_seq && ref_truncated) {
		L->commit_broken = true; /* beyond the horizon of the reference: nothing to compare with */
		return;
	}
	if(k >= R->n_seq)
		COMMIT_VIOLATION("committed-extra", "LP %llu: %s committed event #%zu (t=%g type=%u) that the sequential run never delivers (GVT=%g)",
		    (unsigned long long)me, where, k, e->ts, e->type, gvt);
	const struct ev_rec *r = &R->seq[k];
	if(r->ts != e->ts || r->type != e->type || r->pl_size != e->pl_size || r->pl_hash != e->pl_hash)
		COMMIT_VIOLATION("committed-mismatch",
		    "LP %llu: %s committed event #%zu is (t=%g type=%u size=%u), sequential history has (t=%g type=%u size=%u) (GVT=%g)",
		    (unsigned long long)me, where, k, e->ts, e->type, e->pl_size, r->ts, r->type, r->pl_size, gvt);
	L->committed++;
	M.n_committed++;
}

static __thread double fossil_gvt_seen;

void verif_wrap_fossil_on_gvt(simtime_t g)
{
	fossil_gvt_seen = g;
	RKC->fossil_on_gvt(g);
}

/* C06: identities (sender id, sequence number) of the remote events whose cancellation a thread has extracted: such an event must
 * never be declared committed.  The identity is unique for the whole run (the sequence numbers do not wrap in runs of this size). */
#define RC_SZ (1u << 16)
static uint64_t rc_keys[RC_SZ];
static unsigned rc_n;
/* the sequence numbers are per (sender thread, destination node): the identity only means something on the receiving rank */
static uint64_t rc_key_of(uint32_t raw_flags, uint32_t m_seq)
{
	return mix64(((uint64_t)(raw_flags & ~3u) << 32) | m_seq, 0xAC00u + (uint64_t)vt_self->rank) | 1u;
}
static void rc_add(uint64_t k)
{
	if(!k || rc_n > RC_SZ / 2)
		return; /* a full table only weakens the check */
	unsigned i = (unsigned)(mix64(k, 0x5c) & (RC_SZ - 1));
	while(rc_keys[i] && rc_keys[i] != k)
		i = (i + 1) & (RC_SZ - 1);
	if(!rc_keys[i]) {
		rc_keys[i] = k;
		rc_n++;
	}
}
static bool rc_has(uint64_t k)
{
	if(!k)
		return false;
	unsigned i = (unsigned)(mix64(k, 0x5c) & (RC_SZ - 1));
	while(rc_keys[i] && rc_keys[i] != k)
		i = (i + 1) & (RC_SZ - 1);
	return rc_keys[i] == k;
}

void verif_wrap_fossil_lp_collect(struct lp_ctx *lp)
{
	int rank = vt_self->rank;
	lp_id_t me = (lp_id_t)(lp - *RK[rank].lps);
	struct lpmon *L = &LM[me];
	array_count_t before = array_count(lp->p.p_msgs);
	struct ev_rec *snap = NULL;
	bool *past = NULL, *cancelled = NULL;
	if(before) {
		snap = malloc(before * sizeof(*snap));
		past = malloc(before * sizeof(*past));
		cancelled = calloc(before, sizeof(*cancelled));
		for(array_count_t i = 0; i < before; i++) {
			struct lp_msg *m = array_get_at(lp->p.p_msgs, i);
			past[i] = is_msg_past(m);
			if(past[i]) {
				snap[i] = (struct ev_rec){m->dest_t, m->m_type, m->pl_size, payload_hash(m->pl, m->pl_size)};
				cancelled[i] = (m->raw_flags & MSG_FLAG_ANTI) != 0 || (m->raw_flags > 3u && rc_has(rc_key_of(m->raw_flags, m->m_seq)));
			}
		}
	}
	releasing_history_of = lp;
	RKC->fossil_lp_collect(lp);
	releasing_history_of = NULL;
	array_count_t after = array_count(lp->p.p_msgs);
	if(after > before)
		sim_violation("C13", "history-grew", "fossil collection grew the history");
	array_count_t removed = before - after;
	M.n_fossil++;
	double g = fossil_gvt_seen;
	for(array_count_t i = 0; i < removed; i++) {
		if(!past[i] || snap[i].type == LP_INIT)
			continue;
		if(!(snap[i].ts < g))
			sim_violation_soft("C13", "released-uncommitted", "LP %llu: fossil collection at GVT=%g released event t=%g",
			    (unsigned long long)me, g, snap[i].ts);
		if(cancelled[i])
			sim_violation_soft("C06", "cancelled-committed",
			    "LP %llu: an event (t=%g type=%u) whose sender has cancelled it is declared committed at GVT=%g: the cancellation got lost",
			    (unsigned long long)me, snap[i].ts, snap[i].type, g);
		commit_entry(me, &snap[i], g, "fossil collection");
	}
	if(removed) {
		probe_hit("fossil_removed");
		for(array_count_t i = 0; i < removed; i++)
			L->trk_proc -= past[i];
		L->trk_total -= removed;
		/* C13: the kept history must start at the kept checkpoint and be consistent with it */
		if(after) {
			if(!array_count(lp->mm_state.logs) || array_get_at(lp->mm_state.logs, 0).ref_i != 0)
				sim_violation("C13", "history-not-at-checkpoint", "LP %llu: kept history does not start at a checkpoint",
				    (unsigned long long)me);
			for(array_count_t i = 0; i < array_count(lp->mm_state.logs); i++)
				if(array_get_at(lp->mm_state.logs, i).ref_i > after)
					sim_violation("C13", "checkpoint-beyond-history", "LP %llu: checkpoint reference %u beyond history of %u",
					    (unsigned long long)me, array_get_at(lp->mm_state.logs, i).ref_i, after);
		}
		/* re-base the C05 digests */
		if(L->hist_cap) {
			size_t n = L->hist_cap > removed ? L->hist_cap - removed : 0;
			memmove(L->hist_digest, L->hist_digest + removed, n * sizeof(uint64_t));
			memmove(L->hist_parts, L->hist_parts + removed, n * sizeof(*L->hist_parts));
			memset(L->hist_digest + n, 0, (L->hist_cap - n) * sizeof(uint64_t));
		}
		L->hist_base += removed;
		L->latch_idx = L->latch_idx > removed ? L->latch_idx - removed : 0;
		if(array_count(lp->mm_state.logs) >= 2)
			probe_hit("fossil_keeps_2plus_ckpts");
	}
	free(snap);
	free(past);
	free(cancelled);
}

void verif_wrap_process_lp_init(struct lp_ctx *lp)
{
	RKC->process_lp_init(lp);
	int rank = vt_self->rank;
	lp_id_t me = (lp_id_t)(lp - *RK[rank].lps);
	struct lpmon *L = &LM[me];
	L->hist_cap = 256;
	L->hist_digest = calloc(L->hist_cap, sizeof(uint64_t));
	L->hist_parts = calloc(L->hist_cap, sizeof(*L->hist_parts));
	L->hist_digest[1] = system_digest(rank, me); /* the state right after LP_INIT */
	L->trk_proc = 1;
	L->trk_total = array_count(lp->p.p_msgs);
}

void verif_wrap_process_lp_fini(struct lp_ctx *lp)
{
	int rank = vt_self->rank;
	lp_id_t me = (lp_id_t)(lp - *RK[rank].lps);
	/* C03: what is still held at shutdown below the last GVT this thread was told is committed too */
	double g = tc()->last_gvt;
	array_count_t n = array_count(lp->p.p_msgs);
	for(array_count_t i = 0; i < n; i++) {
		struct lp_msg *m = array_get_at(lp->p.p_msgs, i);
		if(!is_msg_past(m) || m->m_type == LP_INIT)
			continue;
		if(!(m->dest_t < g))
			break;
		if((m->raw_flags & MSG_FLAG_ANTI) || (m->raw_flags > 3u && rc_has(rc_key_of(m->raw_flags, m->m_seq))))
			sim_violation_soft("C06", "cancelled-committed",
			    "LP %llu: an event (t=%g type=%u) whose sender has cancelled it is still a valid history entry below the last GVT=%g at shutdown",
			    (unsigned long long)me, m->dest_t, m->m_type, g);
		struct ev_rec e = {m->dest_t, m->m_type, m->pl_size, payload_hash(m->pl, m->pl_size)};
		commit_entry(me, &e, g, "shutdown");
	}
	releasing_history_of = lp;
	RKC->process_lp_fini(lp);
	releasing_history_of = NULL;
}

void verif_wrap_stats_take(enum stats_thread_type s, uint_fast64_t c)
{
	if(vt_self && tw_parallel()) {
		struct tctx *t = tc();
		if(s == STATS_MSG_ROLLBACK) {
			t->undone += c;
			M.n_undone += c;
		} else if(s == STATS_MSG_ANTI) {
			t->antis += c;
			M.n_anti += c;
		}
	}
	RKC->stats_take(s, c);
}

void verif_wrap_stats_on_gvt(simtime_t g)
{
	RKC->stats_on_gvt(g);
	if(vt_self && P.serial) {
		/* the serial runtime records too: everything it dispatched since the last record is a forward execution */
		struct tctx *c = tc();
		c->forward = M.n_forward - c->serial_fw_seen;
		c->serial_fw_seen = M.n_forward;
		if(!c->serial_first_rec) {
			c->forward += (uint64_t)P.n_lps; /* the serial runtime counts the LP_INIT executions as processed messages too */
			c->serial_first_rec = true;
		}
	}
	if(vt_self) {
		struct tctx *c = tc();
		if(c->n_obs == c->cap_obs) {
			c->cap_obs = c->cap_obs ? c->cap_obs * 2 : 64;
			c->obs = realloc(c->obs, c->cap_obs * sizeof(*c->obs));
		}
		c->obs[c->n_obs++] = (struct obs_rec){c->forward, c->rollbacks, c->undone_h, c->silent_n, c->ckpts, c->antis_h, g};
		c->forward = c->silent_n = c->rollbacks = c->undone = c->ckpts = c->antis = c->undone_h = c->antis_h = 0;
	}
}

simtime_t verif_wrap_gvt_phase_run(void) { return RKC->gvt_phase_run(); }

bool verif_wrap_sync_thread_barrier(void) { return RKC->sync_thread_barrier(); }

void verif_wrap_msg_allocator_free_at_gvt(struct lp_msg *m) { RKC->msg_allocator_free_at_gvt(m); }

void verif_wrap_msg_queue_fini(void)
{
	in_queue_fini = true;
	{
		char nm[32];
		snprintf(nm, sizeof(nm), "r%d_queues", vt_self->rank);
		char **qp = sim_symbol_addr(nm);
		if(qp && *qp && *(struct lp_msg **)(*qp + 64 * (size_t)*RKC->p_rid()))
			probe_hit("buffer_list_nonempty_at_fini");
	}
	RKC->msg_queue_fini();
	in_queue_fini = false;
}

/* lp_init()/lp_fini() are called by parallel.c: ownership ranges are known when lp_init returns */
void verif_wrap_lp_fini(void) { RKC->lp_fini(); }

void verif_wrap_lp_init(void)
{
	struct tctx *c = tc();
	struct rank_api *rk = RKC;
	rk->lp_init();
	c->first = *rk->p_lid_thread_first();
	c->end = *rk->p_lid_thread_end();
	c->lp_init_done = true;
	c->rid = (int)*rk->p_rid();
	for(uint64_t i = c->first; i < c->end; i++) {
		struct lp_ctx *lp = lp_of(vt_self->rank, i);
		if(!model_can_end(i, lp->state_pointer))
			M.unlatched = lp->termination_t;
	}
	M.workers_inited++;
	sim_event(0x13, c->first, c->end);
}

/* ------------------------------------------------------------------ C06: message buffer life cycle (hook 1) */
#if defined(__SANITIZE_ADDRESS__)
#include <sanitizer/asan_interface.h>
#else
#define __asan_poison_memory_region(a, n) ((void)0)
#define __asan_unpoison_memory_region(a, n) ((void)0)
#endif
#define BUF_TAB (1u << 18)
static struct buf_ent {
	struct lp_msg *m;
	bool live;
	uint8_t ea_state; /* 0: not a remote anti-message, 1: extracted and being handled, 2: handled and still alive (must be listed) */
	unsigned ea_lp;
	uint32_t gen;
} buf_tab[BUF_TAB];
static uint64_t buf_allocs, buf_frees;
extern bool fakempi_buffer_in_flight(const void *lo, const void *hi) __attribute__((weak));

static struct buf_ent *buf_find(struct lp_msg *m, bool create)
{
	unsigned h = (unsigned)(((uintptr_t)m >> 4) * 2654435761u) & (BUF_TAB - 1);
	for(unsigned k = 0; k < 4096; k++) {
		struct buf_ent *e = &buf_tab[(h + k) & (BUF_TAB - 1)];
		if(e->m == m)
			return e;
		if(!e->m) {
			if(!create)
				return NULL;
			e->m = m;
			return e;
		}
	}
	return NULL;
}

/* remote anti-messages that were extracted and not (yet) released: each must sit in the early-anti list of its LP until it
 * annihilates its positive copy; an entry that silently vanishes from the list means a cancellation got lost.
 * Kept as counters per LP (the life-cycle table remembers which buffers are such entries): the list of an LP is only looked at
 * by its owner, when it extracts a message for that LP, i.e. between two of its own event executions. */
static struct buf_ent *buf_find(struct lp_msg *m, bool create);
static unsigned ea_cnt[MODEL_MAX_LPS];
static struct lp_msg *ea_unsettled[VT_MAX];

static void ea_on_extract(struct lp_msg *m)
{
	int me = vt_self->id;
	if(ea_unsettled[me]) {
		/* this thread has finished handling the previous remote anti-message: it was matched (released) or listed */
		struct buf_ent *e = buf_find(ea_unsettled[me], false);
		if(e && e->live && e->ea_state == 1) {
			e->ea_state = 2;
			ea_cnt[e->ea_lp]++;
		}
		ea_unsettled[me] = NULL;
	}
	if(!m)
		return;
	lp_id_t d = m->dest;
	if(d < (lp_id_t)P.n_lps && LM[d].owner_vt == me && !LM[d].fini_count) {
		unsigned n = 0;
		for(struct lp_msg *a = lp_of(vt_self->rank, d)->p.early_antis; a && n <= ea_cnt[d]; a = a->next)
			n++;
		if(n != ea_cnt[d])
			sim_violation_soft("C06", "early-anti-lost",
			    "LP %llu: %u remote anti-message(s) that overtook their events were neither matched nor released, but the LP's early "
			    "anti-message list holds %s%u: a cancellation got lost and the cancelled event will be delivered",
			    (unsigned long long)d, ea_cnt[d], n > ea_cnt[d] ? "more than " : "", n > ea_cnt[d] ? ea_cnt[d] : n);
	}
	if((m->raw_flags & MSG_FLAG_ANTI) && m->raw_flags > (MSG_FLAG_ANTI | MSG_FLAG_PROCESSED) && d < (lp_id_t)P.n_lps) {
		struct buf_ent *e = buf_find(m, false);
		if(e && e->live) {
			rc_add(rc_key_of(m->raw_flags, m->m_seq));
			e->ea_state = 1;
			e->ea_lp = (unsigned)d;
			ea_unsettled[me] = m;
			probe_hit("remote_anti_extracted");
		}
	}
}

void verif_hook_msg_alloc(struct lp_msg *msg)
{
	if(!vt_self)
		return;
	sim_progress();
	__asan_unpoison_memory_region(msg, sizeof(struct lp_msg));
	struct buf_ent *e = buf_find(msg, true);
	if(!e)
		sim_finish("skip"); /* more distinct buffers than the harness can follow; neither ok nor a violation */
	if(e->live)
		sim_violation("C06", "buffer-handed-out-twice", "message buffer %p handed out while still in use", (void *)msg);
	e->live = true;
	e->ea_state = 0;
	e->gen++;
	buf_allocs++;
}

void verif_hook_msg_free(struct lp_msg *msg)
{
	if(!vt_self)
		return;
	sim_progress(); /* a loop that releases buffers (a long history at LP_FINI) is not a hang */
	struct buf_ent *e = buf_find(msg, false);
	buf_frees++;
	bool was_listed_anti = false;
	if(e) {
		if(!e->live)
			sim_violation("C06", "double-release", "message buffer %p (t=%g) released twice", (void *)msg, msg->dest_t);
		e->live = false;
		if(e->ea_state == 2) {
			was_listed_anti = true;
			if(ea_cnt[e->ea_lp])
				ea_cnt[e->ea_lp]--;
		}
		e->ea_state = 0;
	}
	if(!P.serial) {
		if(drv_mode)
			for(unsigned i = 0; i < held_n; i++)
				if(held[i] == msg)
					sim_violation("C06", "released-while-queued", "message %p (t=%g, LP %llu) released while it is on its way to a thread's queue",
					    (void *)msg, msg->dest_t, (unsigned long long)msg->dest);
		struct pend_ent *pe = pend_find(msg);
		if(pe) {
			/* shutdown discards what is still queued for the finalising thread: by design */
			if(in_queue_fini && msg->dest < (lp_id_t)P.n_lps && LM[msg->dest].owner_vt == vt_self->id) {
				pend_remove(pe);
				probe_hit("queued_at_shutdown");
			} else {
				sim_violation("C06", "released-while-queued", "message %p (t=%g, LP %llu) released while it sits in a thread's queue",
				    (void *)msg, msg->dest_t, (unsigned long long)msg->dest);
			}
		}
		if(fakempi_buffer_in_flight && fakempi_buffer_in_flight(msg, (char *)msg + sizeof(struct lp_msg)))
			sim_violation("C06", "released-in-flight", "message %p (t=%g) released while MPI may still read its buffer", (void *)msg,
			    msg->dest_t);
		int rank = vt_self->rank;
		lp_id_t d = msg->dest;
		/* histories are private to the owning thread: looking into another thread's would race with basic-block preemption */
		if(d < (lp_id_t)P.n_lps && LM[d].init_count == 1 && LM[d].owner_rank == rank && LM[d].owner_vt == vt_self->id && LM[d].fini_count == 0) {
			struct lp_ctx *lp = lp_of(rank, d);
			if(lp != releasing_history_of)
				for(array_count_t i = 0; i < array_count(lp->p.p_msgs); i++)
					if(array_get_at(lp->p.p_msgs, i) == msg) {
						/* the history is what fossil collection declares committed */
						if(msg->raw_flags & MSG_FLAG_ANTI)
							sim_violation_soft("C03", "cancelled-event-kept", "LP %llu: the cancelled event %p (t=%g) is released but stays in "
							    "the history (entry %u) from which committed events are cut", (unsigned long long)d, (void *)msg, msg->dest_t, i);
						sim_violation("C06", "released-while-in-history",
						    "message %p (t=%g) released while it is entry %u of the live history of LP %llu", (void *)msg,
						    msg->dest_t, i, (unsigned long long)d);
					}
			if(was_listed_anti)
				for(struct lp_msg *a = lp->p.early_antis; a; a = a->next)
					if(a == msg)
						sim_violation("C06", "released-early-anti", "early anti-message %p released while still listed", (void *)msg);
		}
	}
	if(msg->pl_size <= MSG_PAYLOAD_BASE_SIZE) {
		/* a recycled buffer must not be read again; the granule holding pl_size stays readable for the allocator itself */
		size_t keep_lo = offsetof(struct lp_msg, pl_size) & ~(size_t)7, keep_hi = keep_lo + 8;
		__asan_poison_memory_region(msg, keep_lo);
		__asan_poison_memory_region((char *)msg + keep_hi, sizeof(struct lp_msg) - keep_hi);
	}
}

/* ------------------------------------------------------------------ running one simulation */
static void *rank_main(void *arg)
{
	int r = (int)(intptr_t)arg;
	struct simulation_configuration conf;
	memset(&conf, 0, sizeof(conf));
	conf.lps = (lp_id_t)P.n_lps;
	conf.n_threads = (unsigned)P.n_threads;
	conf.termination_time = term_time();
	conf.gvt_period = (unsigned)P.gvt_period;
	conf.log_level = LOG_SILENT;
	conf.logfile = NULL;
	conf.stats_file = P.stats ? M.stats_path : NULL;
	conf.ckpt_interval = (unsigned)P.ckpt_interval;
	conf.prng_seed = (uint64_t)P.prng_seed;
	conf.core_binding = P.core_binding != 0;
	conf.serial = P.serial != 0;
	conf.dispatcher = model_dispatch;
	conf.committed = model_can_end;
	if(RK[r].RootsimInit(&conf))
		sim_violation("C08", "init-failed", "RootsimInit failed on rank %d", r);
	int ret = RK[r].RootsimRun();
	if(ret)
		sim_violation("C08", "run-failed", "RootsimRun returned %d on rank %d", ret, r);
	M.ranks_returned++;
	sim_progress();
	return NULL;
}

static bool round_open(void)
{
	for(int r = 0; r < P.n_ranks && r < VERIF_NRANKS; r++)
		if(M.c_b[r] && *M.c_b[r])
			return true;
	return false;
}

static int stop_pred(void *arg)
{
	(void)arg;
	if(M.ranks_returned == P.n_ranks)
		return 1;
	if(P.serial)
		return G.sps >= (uint64_t)P.stop_at && serial_started;
	/* RootsimStop() is only meaningful once the runtime is up on every rank: all workers have initialised their LPs */
	int want = 0;
	for(int r = 0; r < P.n_ranks; r++) {
		if(!RK[r].global_config->n_threads)
			return 0;
		want += (int)RK[r].global_config->n_threads;
	}
	if(M.workers_inited < want)
		return 0;
	if(G.sps < (uint64_t)P.stop_at)
		return 0;
	return !P.stop_in_round || round_open() || G.sps > (uint64_t)P.stop_at + 20000;
}

static void *stopper_main(void *arg)
{
	(void)arg;
	sim_block_until(stop_pred, NULL, "stopper");
	if(M.ranks_returned == P.n_ranks)
		return NULL;
	M.stop_called = true;
	G.f_stop++;
	if(round_open())
		probe_hit("stop_in_open_round");
	sim_event(0x60, G.sps, 0);
	RK[0].RootsimStop();
	return NULL;
}

static void resolve_statics(void)
{
	char nm[64];
	for(int r = 0; r < VERIF_NRANKS; r++) {
		snprintf(nm, sizeof(nm), "r%d_thr_to_end", r);
		M.thr_to_end[r] = sim_symbol_addr(nm);
		snprintf(nm, sizeof(nm), "r%d_c_b", r);
		M.c_b[r] = sim_symbol_addr(nm);
		snprintf(nm, sizeof(nm), "r%d_c_d", r);
		M.c_d[r] = sim_symbol_addr(nm);
		snprintf(nm, sizeof(nm), "r%d_nodes_to_end", r);
		M.nodes_to_end[r] = sim_symbol_addr(nm);
		if(!M.thr_to_end[r] || !M.c_b[r] || !M.c_d[r]) {
			sim_note("cannot resolve the core's static variables thr_to_end / c_b / c_d of rank %d: the harness must be adapted", r);
			sim_finish("harness");
		}
	}
}

static void final_checks(void);

static double drv_lower_bound(void)
{
	double mn = __builtin_inf();
	for(unsigned i = 0; i < held_n; i++)
		mn = held[i]->dest_t < mn ? held[i]->dest_t : mn;
	for(unsigned i = 0; i < inq_n; i++)
		mn = inq[i]->dest_t < mn ? inq[i]->dest_t : mn;
	return mn;
}

static int drv_draw(int n)
{
	int v = 0;
	if(!G.replay)
		v = (int)prng_below(&G.dec_rng, (uint64_t)n);
	return sim_commit(DK_FAULT, n, v);
}

static void *drv_main(void *arg)
{
	(void)arg;
	struct rank_api *rk = &RK[0];
	struct simulation_configuration conf;
	memset(&conf, 0, sizeof(conf));
	conf.lps = (lp_id_t)P.n_lps;
	conf.n_threads = 1;
	conf.termination_time = 0;
	conf.gvt_period = 1000;
	conf.log_level = LOG_SILENT;
	conf.ckpt_interval = (unsigned)P.ckpt_interval;
	conf.prng_seed = (uint64_t)P.prng_seed;
	conf.dispatcher = model_dispatch;
	conf.committed = model_can_end;
	if(rk->RootsimInit(&conf))
		sim_violation("C08", "init-failed", "RootsimInit failed");
	/* what parallel_global_init() and worker_thread_init() do for one worker */
	rk->stats_global_init();
	rk->lp_global_init();
	rk->msg_queue_global_init();
	rk->termination_global_init();
	rk->gvt_global_init();
	*rk->p_rid() = 0;
	rk->stats_init();
	rk->auto_ckpt_init();
	rk->msg_allocator_init();
	rk->msg_queue_init();
	drv_mode = true;
	verif_wrap_lp_init();
	double last_g = 0;
	uint64_t steps = 0;
	while(held_n || inq_n) {
		if(++steps > 400000)
			sim_violation("C08", "budget-exhausted", "the driven worker does not come to an end");
		int what = inq_n ? drv_draw(8) : 0;
		if(!held_n && what < 3)
			what = 3;
		if(what < 3) {
			/* deliver held messages: usually the oldest ones, sometimes an arbitrary one (the others become stragglers) */
			unsigned k = 1 + (unsigned)drv_draw(3);
			while(k-- && held_n) {
				unsigned pick;
				int mode = drv_draw(4);
				if(mode == 0) {
					pick = (unsigned)drv_draw((int)(held_n < 64 ? held_n : 64));
				} else {
					pick = 0;
					for(unsigned i = 1; i < held_n; i++)
						if(held[i]->dest_t < held[pick]->dest_t || (mode == 1 && held[i]->dest_t == held[pick]->dest_t))
							pick = i;
				}
				struct lp_msg *m = held[pick];
				held[pick] = held[--held_n];
				if(inq_n >= HELD_MAX)
					sim_finish("skip");
				inq[inq_n++] = m;
				drv_releasing = true;
				verif_wrap_msg_queue_insert(m);
				drv_releasing = false;
				drv_released++;
			}
		} else if(what < 7) {
			unsigned k = 1 + (unsigned)drv_draw(4);
			while(k--)
				rk->process_msg();
		} else {
			/* announce a GVT: any value between the last one and the true lower bound is legal */
			double lb = drv_lower_bound();
			double g = lb;
			int slack = drv_draw(4);
			if(slack == 1 && lb > last_g && lb < 1e300)
				g = last_g + (lb - last_g) * 0.5;
			else if(slack == 2 && lb >= 0.5 && lb - 0.5 > last_g)
				g = lb - 0.5;
			if(g > 1e300)
				continue; /* nothing left: the final announcement comes below */
			if(g > last_g) {
				last_g = g;
				drv_gvts++;
				verif_wrap_termination_on_gvt(g);
				rk->auto_ckpt_on_gvt();
				verif_wrap_fossil_on_gvt(g);
				rk->msg_allocator_on_gvt(g);
				verif_wrap_stats_on_gvt(g);
			}
		}
	}
	/* everything has been delivered and processed: the whole history is committed */
	verif_wrap_termination_on_gvt(SIMTIME_MAX);
	verif_wrap_fossil_on_gvt(SIMTIME_MAX);
	rk->msg_allocator_on_gvt(SIMTIME_MAX);
	drv_mode = false;
	verif_wrap_lp_fini();
	M.ranks_returned = 1;
	return NULL;
}

static void drv_final_checks(void)
{
	lp_id_t n = (lp_id_t)P.n_lps;
	for(lp_id_t i = 0; i < n; i++) {
		if(LM[i].init_count != 1 || LM[i].fini_count != 1)
			sim_violation("C14", "init-count", "LP %llu initialised %d and finalised %d times", (unsigned long long)i, LM[i].init_count,
			    LM[i].fini_count);
		if(LM[i].committed != REF[i].n_seq && !LM[i].commit_broken)
			sim_violation("C03", "committed-short", "LP %llu: %zu events committed at the end, the sequential run delivers %zu",
			    (unsigned long long)i, LM[i].committed, REF[i].n_seq);
		if(LM[i].fini_digest != REF[i].digest_final)
			sim_violation("C01", "final-state", "LP %llu: state at LP_FINI differs from the sequential execution (driven worker)",
			    (unsigned long long)i);
	}
}

void tw_run(void)
{
	memset(&M, 0, sizeof(M));
	memset(TC, 0, sizeof(TC));
	memset(LM, 0, sizeof(LM));
	memset(ea_cnt, 0, sizeof(ea_cnt));
	memset(ea_unsettled, 0, sizeof(ea_unsettled));
	pend_n = 0; /* the mirror itself is zero: every run is a fresh fork of a parent that never touches it */
	for(int i = 0; i < MODEL_MAX_LPS; i++)
		LM[i].owner_vt = -1;
	snprintf(M.stats_path, sizeof(M.stats_path), "/verif/.work/stats_%d", (int)getpid());
	{
		char stale[300];
		snprintf(stale, sizeof(stale), "%s.bin", M.stats_path);
		unlink(stale); /* process ids are reused */
	}
	resolve_statics();
	model_setup();
	reference_run();
	sim_event(0x01, ref_total_events, 0);
	if(P.engine == 5) {
		held_n = inq_n = 0;
		sim_spawn(VTK_WORKER, 0, drv_main, NULL);
		sim_run_all();
		drv_final_checks();
		sim_finish("ok");
	}
	for(int r = 0; r < P.n_ranks; r++)
		sim_spawn(VTK_MAIN, r, rank_main, (void *)(intptr_t)r);
	if(P.stop_at > 0)
		sim_spawn(VTK_STOPPER, 0, stopper_main, NULL);
	sim_run_all();
	final_checks();
	sim_finish("ok");
}

/* ------------------------------------------------------------------ C20: independent reader of <stats>.bin */
struct rd {
	unsigned char *d;
	size_t n, o;
};
static uint64_t rd_u(struct rd *r, unsigned sz)
{
	uint64_t v = 0;
	if(r->o + sz > r->n)
		sim_violation("C20", "truncated", "statistics file ends at byte %zu, field of %u bytes expected at %zu", r->n, sz, r->o);
	memcpy(&v, r->d + r->o, sz);
	r->o += sz;
	return v;
}

static void stats_file_check(void)
{
	char path[300];
	snprintf(path, sizeof(path), "%s.bin", M.stats_path);
	FILE *f = fopen(path, "rb");
	bool expect_none = false;
	for(int r = 0; r < P.n_ranks; r++)
		expect_none |= RK[r].global_config->stats_file == NULL; /* a failed tmpfile() turns statistics off: allowed */
	if(!f) {
		if(expect_none) {
			probe_hit("stats_disabled_by_fault");
			return;
		}
		sim_violation("C20", "no-file", "a statistics file was requested but %s does not exist", path);
	}
	struct rd r = {malloc(1 << 24), 0, 0};
	r.n = fread(r.d, 1, 1 << 24, f);
	fclose(f);
	unlink(path);
	if(rd_u(&r, 2) != 61455)
		sim_violation("C20", "magic", "wrong magic number");
	int64_t s_cnt = (int64_t)rd_u(&r, 8);
	if(s_cnt != STATS_COUNT)
		sim_violation("C20", "metric-count", "file announces %lld thread metrics", (long long)s_cnt);
	for(int64_t i = 0; i < s_cnt; i++) {
		unsigned l = (unsigned)rd_u(&r, 1);
		if(r.o + l > r.n)
			sim_violation("C20", "truncated", "metric name runs past the end of the file");
		r.o += l;
	}
	int64_t n_cnt = (int64_t)rd_u(&r, 8);
	if(n_cnt != P.n_ranks)
		sim_violation("C20", "node-count", "file announces %lld nodes, the run had %lld", (long long)n_cnt, (long long)P.n_ranks);
	for(int64_t nd = 0; nd < n_cnt; nd++) {
		uint64_t t_cnt = rd_u(&r, 8);
		for(int k = 0; k < 8; k++)
			rd_u(&r, 8);
		if(t_cnt != RK[nd].global_config->n_threads)
			sim_violation("C20", "thread-count", "node %lld: file announces %llu threads, the node ran %u", (long long)nd,
			    (unsigned long long)t_cnt, RK[nd].global_config->n_threads);
		int64_t n_siz = (int64_t)rd_u(&r, 8);
		if(n_siz < 0 || n_siz % 16)
			sim_violation("C20", "node-array-size", "node %lld: size of the node GVT array is %lld", (long long)nd, (long long)n_siz);
		int64_t n_rec = n_siz / 16;
		double last = -1;
		for(int64_t k = 0; k < n_rec; k++) {
			uint64_t gb = rd_u(&r, 8);
			rd_u(&r, 8);
			double g;
			memcpy(&g, &gb, 8);
			if(g < last)
				sim_violation("C20", "gvt-decreases", "node %lld: record %lld has GVT %g after %g", (long long)nd, (long long)k, g, last);
			last = g;
			if(g < 0)
				sim_violation("C20", "gvt-negative", "node %lld: record %lld has GVT %g", (long long)nd, (long long)k, g);
			if(!P.serial && (uint64_t)k < M.rounds_known && k < GVT_ROUNDS_MAX && M.round_gvt[k] != g)
				sim_violation("C20", "gvt-value", "node %lld: record %lld has GVT %g, the threads were told %g", (long long)nd, (long long)k, g,
				    M.round_gvt[k]);
		}
		for(uint64_t t = 0; t < t_cnt; t++) {
			int64_t t_siz = (int64_t)rd_u(&r, 8);
			if(t_siz < 0 || t_siz % (s_cnt * 8))
				sim_violation("C20", "thread-array-size", "node %lld thread %llu: size of the thread array is %lld", (long long)nd,
				    (unsigned long long)t, (long long)t_siz);
			int64_t t_rec = t_siz / (s_cnt * 8);
			if(t_rec != n_rec)
				sim_violation("C20", "record-count", "node %lld: %lld node records but thread %llu has %lld records", (long long)nd,
				    (long long)n_rec, (unsigned long long)t, (long long)t_rec);
			struct tctx *c = NULL;
			for(int v = 0; v < G.nvt; v++)
				if(G.vt[v].kind == VTK_WORKER && G.vt[v].rank == nd && TC[v].lp_init_done && TC[v].rid == (int)t)
					c = &TC[v];
			if(P.serial)
				for(int v = 0; v < G.nvt; v++)
					if(G.vt[v].kind == VTK_MAIN)
						c = &TC[v];
			uint64_t cum_fw = 0, cum_undone = 0;
			for(int64_t k = 0; k < t_rec; k++) {
				uint64_t v[STATS_COUNT];
				for(int q = 0; q < STATS_COUNT; q++)
					v[q] = rd_u(&r, 8);
				cum_fw += v[STATS_MSG_PROCESSED];
				cum_undone += v[STATS_MSG_ROLLBACK];
				if(cum_undone > cum_fw)
					sim_violation("C20", "undone-exceeds-forward", "node %lld thread %llu record %lld: cumulatively %llu undone > %llu forward",
					    (long long)nd, (unsigned long long)t, (long long)k, (unsigned long long)cum_undone, (unsigned long long)cum_fw);
				if(!c || (uint64_t)k >= c->n_obs)
					sim_violation("C20", "unexpected-record", "node %lld thread %llu has record %lld the harness never saw written",
					    (long long)nd, (unsigned long long)t, (long long)k);
				struct obs_rec *o = &c->obs[k];
				if(v[STATS_MSG_PROCESSED] != o->fw || v[STATS_ROLLBACK] != o->rb || v[STATS_MSG_ROLLBACK] != o->undone ||
				    v[STATS_MSG_SILENT] != o->sil || v[STATS_CKPT] != o->ck || v[STATS_MSG_ANTI] != o->anti)
					sim_violation("C20", "counter-mismatch",
					    "node %lld thread %llu record %lld (GVT %g): file says fw=%llu rb=%llu undone=%llu silent=%llu ckpt=%llu anti=%llu, "
					    "observed fw=%llu rb=%llu undone=%llu silent=%llu ckpt=%llu anti=%llu",
					    (long long)nd, (unsigned long long)t, (long long)k, o->gvt, (unsigned long long)v[STATS_MSG_PROCESSED],
					    (unsigned long long)v[STATS_ROLLBACK], (unsigned long long)v[STATS_MSG_ROLLBACK],
					    (unsigned long long)v[STATS_MSG_SILENT], (unsigned long long)v[STATS_CKPT], (unsigned long long)v[STATS_MSG_ANTI],
					    (unsigned long long)o->fw, (unsigned long long)o->rb, (unsigned long long)o->undone, (unsigned long long)o->sil,
					    (unsigned long long)o->ck, (unsigned long long)o->anti);
			}
			if(c && c->n_obs != (unsigned)t_rec)
				sim_violation("C20", "record-lost", "node %lld thread %llu wrote %u records, the file holds %lld", (long long)nd,
				    (unsigned long long)t, c->n_obs, (long long)t_rec);
			probe_add("stats_records_checked", (uint64_t)t_rec);
		}
	}
	if(r.o != r.n)
		sim_violation("C20", "trailing-garbage", "%zu bytes after the last documented field", r.n - r.o);
	free(r.d);
	probe_hit("stats_files_parsed");
}

/* ------------------------------------------------------------------ end-of-run oracles */
static void final_checks(void)
{
	if(P.stats)
		stats_file_check();
	lp_id_t n = (lp_id_t)P.n_lps;
	if(M.ranks_returned != P.n_ranks)
		sim_violation("C08", "not-returned", "%d of %d ranks returned", M.ranks_returned, (int)P.n_ranks);
	for(lp_id_t i = 0; i < n; i++) {
		if(LM[i].init_count != 1)
			sim_violation("C14", "init-count", "LP %llu initialised %d times", (unsigned long long)i, LM[i].init_count);
		if(LM[i].fini_count != 1)
			sim_violation("C08", "fini-count", "LP %llu finalised %d times", (unsigned long long)i, LM[i].fini_count);
	}
	bool by_predicate = !M.stop_called && P.term_time_q == 0;
	if(P.serial) {
		/* C10 stop rule */
		if(by_predicate) {
			for(lp_id_t i = 0; i < n; i++) {
				struct ref_lp *R = &REF[i];
				size_t need = R->first_true < 0 ? 0 : (size_t)R->first_true + 1;
				if(R->first_true == -2)
					need = R->n_seq;
				if(LM[i].committed < need)
					sim_violation("C10", "stopped-early", "serial run stopped after %zu events of LP %llu, predicate needs %zu",
					    LM[i].committed, (unsigned long long)i, need);
			}
		}
		if(by_predicate) {
			/* stop rule: at the first event after which every predicate has held (or when no event is left) */
			size_t lo = ref_all_true ? ref_stop_lo : ref_total_events, hi = ref_all_true ? ref_stop_hi : ref_total_events;
			if(M.n_forward < lo || M.n_forward > hi)
				sim_violation("C10", "stop-rule", "serial run dispatched %llu events, a correct executor stops after %zu..%zu (%s)",
				    (unsigned long long)M.n_forward, lo, hi, ref_all_true ? "all predicates hold" : "no event left");
		}
		if(P.m_absorbing && by_predicate)
			for(lp_id_t i = 0; i < n; i++)
				if(LM[i].fini_digest != REF[i].digest_first_true)
					sim_violation("C10", "final-state", "serial run: final state of LP %llu differs from the reference",
					    (unsigned long long)i);
		return;
	}
	/* C14: ownership ranges */
	for(int r = 0; r < P.n_ranks; r++) {
		uint64_t lo = UINT64_MAX, hi = 0, covered = 0;
		unsigned nthr = 0, empty = 0;
		for(int v = 0; v < G.nvt; v++) {
			if(G.vt[v].kind != VTK_WORKER || G.vt[v].rank != r || !TC[v].lp_init_done)
				continue;
			nthr++;
			if(TC[v].first >= TC[v].end) {
				empty++;
				continue;
			}
			lo = TC[v].first < lo ? TC[v].first : lo;
			hi = TC[v].end > hi ? TC[v].end : hi;
			covered += TC[v].end - TC[v].first;
			for(int w = 0; w < v; w++)
				if(G.vt[w].kind == VTK_WORKER && TC[w].lp_init_done && TC[w].first < TC[v].end && TC[v].first < TC[w].end &&
				    TC[w].first < TC[w].end)
					sim_violation("C14", "ranges-overlap", "threads %d and %d own overlapping LP ranges", w, v);
		}
		uint64_t n_node = *RK[r].n_lps_node;
		if(nthr && (covered != n_node || (n_node && (lo != *RK[r].lid_node_first || hi != lo + n_node))))
			sim_violation("C14", "ranges-cover", "rank %d: thread ranges cover %llu LPs in [%llu,%llu), node hosts %llu from %llu", r,
			    (unsigned long long)covered, (unsigned long long)lo, (unsigned long long)hi, (unsigned long long)n_node,
			    (unsigned long long)*RK[r].lid_node_first);
		if(empty && n_node >= nthr)
			sim_violation("C14", "idle-thread", "rank %d: %u thread(s) without LPs although %llu LPs >= %u threads", r, empty,
			    (unsigned long long)n_node, nthr);
		if(empty)
			probe_hit("thread_without_lps");
	}
	/* C07: the run returned although nobody asked it to stop */
	if(!M.stop_called) {
		bool time_reached = M.final_gvt >= (P.term_time_q > 0 ? term_time() : SIMTIME_MAX);
		if(!time_reached)
			for(lp_id_t i = 0; i < n; i++) {
				struct ref_lp *R = &REF[i];
				if(R->first_true == -2)
					sim_violation("C07", "ended-never-true", "run ended at GVT=%g but LP %llu never satisfies its predicate",
					    M.final_gvt, (unsigned long long)i);
				if(R->first_true >= 0 && !(R->first_true_ts < M.final_gvt))
					sim_violation("C07", "ended-premature", "run ended at final GVT=%g but LP %llu's predicate first holds at t=%g",
					    M.final_gvt, (unsigned long long)i, R->first_true_ts);
			}
	}
	/* C01 / C02: the state at finalisation is the sequential one (whenever every LP's predicate eventually holds in the
	 * sequential execution: the run then ended by predicate, or because no event was left, which is the same state) */
	bool all_true = true;
	for(lp_id_t i = 0; i < n; i++)
		all_true &= REF[i].first_true != -2;
	if(by_predicate && P.m_absorbing && all_true) {
		for(lp_id_t i = 0; i < n; i++) {
			if(!LM[i].fini_pred)
				sim_violation("C07", "final-state-predicate", "LP %llu is finalised in a state that does not satisfy its predicate",
				    (unsigned long long)i);
			if(LM[i].fini_digest != REF[i].digest_first_true) {
				sim_violation(P.n_ranks > 1 ? "C02" : "C01", "final-state",
				    "LP %llu: state at LP_FINI differs from the sequential execution (ref events %zu, handled fw %llu)",
				    (unsigned long long)i, REF[i].n_seq, (unsigned long long)LM[i].forward);
			}
		}
	}

}

/* ------------------------------------------------------------------ hooks called by the scheduler */
extern void units_on_hang(const char *cls, const char *sig, const char *detail);
extern void units_fill_result(char *buf, size_t n);

void engine_on_hang(const char *cls, const char *sig, const char *detail)
{
	if(P.engine >= 1 && P.engine <= 3) {
		units_on_hang(cls, sig, detail);
		return;
	}
	(void)cls;
	(void)sig;
	(void)detail;
	/* a hang after the termination decision still lets the state oracles speak: note it for the driver */
	bool decided = false;
	for(int r = 0; r < P.n_ranks && r < VERIF_NRANKS; r++)
		if(M.nodes_to_end[r] && *M.nodes_to_end[r] <= 0)
			decided = true;
	M.hang_after_decision = decided;
	sim_note("hang_after_decision=%d stop=%d ", decided, M.stop_called);
	static const char *const vars[] = {"c_a", "c_b", "c_c", "c_d", "gvt_nodes", "thr_to_end", "nodes_to_end", "total_msg_received"};
	for(int r = 0; r < P.n_ranks && r < VERIF_NRANKS; r++)
		for(unsigned k = 0; k < sizeof(vars) / sizeof(*vars); k++) {
			char nm[64];
			snprintf(nm, sizeof(nm), "r%d_%s", r, vars[k]);
			int *p = sim_symbol_addr(nm);
			if(p)
				sim_note("%s=%d ", nm, *p);
		}
	sim_note("pending=%u ", pend_n);
}

void engine_fill_result(char *buf, size_t n)
{
	if(P.engine >= 1 && P.engine <= 3) {
		units_fill_result(buf, n);
		return;
	}
	uint64_t fin = 0;
	for(lp_id_t i = 0; i < (lp_id_t)P.n_lps && i < MODEL_MAX_LPS; i++)
		fin = mix64(fin, LM[i].fini_digest);
	unsigned votes = 0;
	for(int v = 0; v < VT_MAX; v++)
		votes += TC[v].votes;
	snprintf(buf, n,
	    "eng=tw ranks=%lld thr=%lld lps=%lld ckpt=%lld gvtp=%lld serial=%lld refev=%zu fw=%llu sil=%llu rb=%llu undone=%llu ck=%llu "
	    "anti=%llu ins=%llu ext=%llu fossil=%llu committed=%llu gvts=%u votes=%u fgvt=%g stop=%d fin=%016llx maxrb=%llu balloc=%llu bfree=%llu drvrel=%llu "
	    "f_mpisent=%llu f_mpidelay=%llu f_mpireorder=%llu f_mpiempty=%llu f_mpicoll=%llu f_mpicolldelay=%llu f_mpilateread=%llu f_drvgvt=%llu",
	    (long long)P.n_ranks, (long long)P.n_threads, (long long)P.n_lps, (long long)P.ckpt_interval, (long long)P.gvt_period,
	    (long long)P.serial, ref_total_events, (unsigned long long)M.n_forward, (unsigned long long)M.n_silent,
	    (unsigned long long)M.n_rollbacks, (unsigned long long)M.n_undone, (unsigned long long)M.n_ckpt, (unsigned long long)M.n_anti,
	    (unsigned long long)M.n_insert, (unsigned long long)M.n_extract, (unsigned long long)M.n_fossil,
	    (unsigned long long)M.n_committed, M.rounds_known, votes, M.final_gvt > 1e300 ? -1.0 : M.final_gvt, M.stop_called,
	    (unsigned long long)fin, (unsigned long long)M.max_rb_depth, (unsigned long long)buf_allocs, (unsigned long long)buf_frees, (unsigned long long)drv_released,
	    (unsigned long long)(&fm_sent ? fm_sent : 0), (unsigned long long)(&fm_delayed ? fm_delayed : 0),
	    (unsigned long long)(&fm_reordered ? fm_reordered : 0), (unsigned long long)(&fm_empty_probes ? fm_empty_probes : 0),
	    (unsigned long long)(&fm_coll ? fm_coll : 0), (unsigned long long)(&fm_coll_delayed ? fm_coll_delayed : 0),
	    (unsigned long long)(&fm_late_reads ? fm_late_reads : 0), (unsigned long long)drv_gvts);
}
