/* Force-included (gcc -include) in front of every translation unit of ROOT-Sim/core
 * when it is compiled for the deterministic simulator.  No edit to /repo is needed:
 *   - every C11 atomic operation becomes a scheduling point *before* the operation
 *   - __rdtsc() reads the simulator's virtual cycle counter
 * Pitfall (probed): _GNU_SOURCE must be defined exactly as arch/platform.h does, before
 * any system header is seen, or arch/thread.c loses CPU_SETSIZE. */
#ifndef VERIF_SEAM_H
#define VERIF_SEAM_H

#define _GNU_SOURCE

#include <stdatomic.h>
#include <stdint.h>
#if defined(__x86_64__) || defined(__i386__)
#include <x86intrin.h>
#include <immintrin.h>
#endif

enum verif_sp_kind {
	VSP_LOAD = 1,
	VSP_STORE,
	VSP_XCHG,
	VSP_CAS,
	VSP_FADD,
	VSP_FSUB,
	VSP_TAS,
	VSP_CLEAR,
	VSP_OTHER
};

extern void verif_sp(int kind, const volatile void *addr, unsigned size, const char *file, int line, const char *func);
extern unsigned long long verif_rdtsc(void);

#define VERIF_SP_(k, p) verif_sp((k), (const volatile void *)(p), (unsigned)sizeof(*(p)), __FILE__, __LINE__, __func__)

#define __atomic_load(p, r, m) (VERIF_SP_(VSP_LOAD, p), __atomic_load(p, r, m))
#define __atomic_store(p, v, m) (VERIF_SP_(VSP_STORE, p), __atomic_store(p, v, m))
#define __atomic_exchange(p, v, r, m) (VERIF_SP_(VSP_XCHG, p), __atomic_exchange(p, v, r, m))
#define __atomic_compare_exchange(p, e, d, w, s, f) (VERIF_SP_(VSP_CAS, p), __atomic_compare_exchange(p, e, d, w, s, f))
#define __atomic_fetch_add(p, v, m) (VERIF_SP_(VSP_FADD, p), __atomic_fetch_add(p, v, m))
#define __atomic_fetch_sub(p, v, m) (VERIF_SP_(VSP_FSUB, p), __atomic_fetch_sub(p, v, m))
#define __atomic_fetch_or(p, v, m) (VERIF_SP_(VSP_OTHER, p), __atomic_fetch_or(p, v, m))
#define __atomic_fetch_and(p, v, m) (VERIF_SP_(VSP_OTHER, p), __atomic_fetch_and(p, v, m))
#define __atomic_fetch_xor(p, v, m) (VERIF_SP_(VSP_OTHER, p), __atomic_fetch_xor(p, v, m))
#define __atomic_test_and_set(p, m) (VERIF_SP_(VSP_TAS, (const volatile char *)(p)), __atomic_test_and_set(p, m))
#define __atomic_clear(p, m) (VERIF_SP_(VSP_CLEAR, (const volatile char *)(p)), __atomic_clear(p, m))

#if defined(__x86_64__) || defined(__i386__)
#undef __rdtsc
#define __rdtsc() verif_rdtsc()
#endif

#endif
