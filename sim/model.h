/* Parametric model family M(params) and the independent reference executor (the oracle). */
#pragma once
#include "ranks.h"

#define MODEL_MAX_LPS 64
#define MODEL_MAX_BUFS 6
#define MODEL_MAX_PL 200

struct lp_state {
	uint64_t digest;
	uint64_t xs;
	uint64_t libsum;
	uint32_t handled;
	uint32_t budget;
	uint32_t limit; /* events handled in total before the LP turns deaf (== budget when absorbing) */
	uint32_t nbuf;
	uint32_t skip_chain; /* the next handled event sends nothing: its self-chain event has been sent in advance */
	uint32_t pad_;
	uint64_t init_draws[2];
	struct {
		unsigned char *p;
		uint32_t sz;
		uint32_t tag;
	} bufs[MODEL_MAX_BUFS];
};

struct ev_rec {
	double ts;
	uint32_t type;
	uint32_t pl_size;
	uint64_t pl_hash;
};

struct ref_lp {
	struct ev_rec *seq; /* sequential dispatch sequence of this LP (LP_INIT excluded) */
	uint64_t *digest_after;
	size_t n_seq, cap;
	uint64_t digest_init;
	long first_true; /* index in seq after which the predicate first holds, -1: at init, -2: never */
	double first_true_ts;
	uint64_t digest_first_true;
	uint64_t digest_final;
	size_t n_effective; /* events that changed the state (the LP was not deaf) */
	/* multiset of (ts,type,size,hash) of events sent to this LP by valid executions */
};

extern struct ref_lp REF[MODEL_MAX_LPS];
extern size_t ref_total_events;
extern double ref_all_true_ts; /* timestamp of the event after which every predicate has held (or -1) */
extern bool ref_all_true;
extern size_t ref_all_true_count, ref_stop_lo, ref_stop_hi;
extern bool ref_truncated;

extern void model_setup(void);      /* builds topology etc.; controller thread, before anything runs */
extern void reference_run(void);    /* sequential execution with the reference executor */
extern void model_dispatch(lp_id_t me, simtime_t now, unsigned type, const void *content, unsigned size, void *st);
extern bool model_can_end(lp_id_t me, const void *st);
extern uint64_t model_state_digest(const struct lp_state *s);
extern uint64_t payload_hash(const void *p, unsigned n);
extern double term_time(void);

/* callbacks implemented by the engine: where the model reports what it observes */
extern void eng_on_dispatch(lp_id_t me, simtime_t now, unsigned type, const void *content, unsigned size, void *st, bool before);
extern void eng_on_fini(lp_id_t me, const struct lp_state *s);
extern void eng_on_init(lp_id_t me);
