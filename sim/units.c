/* Unit simulations on the real code of single modules:
 *   mm  - rollbackable allocator driven by operation histories with checkpoint / restore (the crash-like
 *         fault) / replay / fossil collection against a shadow model                       (C05 C12 C13 C11)
 *   mq  - inter-thread message queue with simulated producer/consumer threads              (C15)
 *   bar - thread barrier with simulated threads                                            (C17) */
#include "ranks.h"

#include <datatypes/msg_queue.h>
#include <mm/model_allocator.h>

#include <errno.h>
#include <stdlib.h>
#include <string.h>

extern uint64_t payload_hash(const void *p, unsigned n);

/* =================================================================================== mm-sim */
#define MM_SLOTS 12
#define MM_MAXOPS 260
enum mm_op { OP_MALLOC, OP_CALLOC, OP_REALLOC, OP_FREE, OP_WRITE, OP_CKPT, OP_NOP };

struct mm_opdesc {
	int op, slot;
	uint32_t size, off, len;
	uint64_t seed;
};
struct mm_slot {
	unsigned char *p;
	uint32_t size;
	uint64_t hash;
	bool live;
};
struct mm_snap {
	struct mm_slot s[MM_SLOTS]; /* pointers are not part of the comparison */
	bool ckpt_here;             /* a checkpoint was taken right after this op */
};

static struct mm_opdesc mm_ops[MM_MAXOPS];
static struct mm_snap mm_snaps[MM_MAXOPS + 1]; /* snap[i] = state after i operations */
static struct mm_slot mm_cur[MM_SLOTS];
static struct lp_ctx mm_lp;
static struct rank_api *mk;
static uint64_t mm_restores, mm_replayed, mm_fossils, mm_arenas_max, mm_allocs, mm_ckpts, mm_restore_new_arena, mm_restore_on, mm_restore_between,
    mm_restore_oldest, mm_null_ok;
static const uint32_t mm_sizes[] = {0, 1, 15, 16, 17, 31, 32, 33, 63, 64, 65, 100, 128, 129, 255, 256, 257, 511, 512, 513, 1000, 1023, 1024, 1025, 4096,
    20000, 32768, 65535, 65536, 65537, 1u << 20};

static void mm_fill(unsigned char *p, uint32_t from, uint32_t to, uint64_t seed)
{
	for(uint32_t i = from; i < to; i++) {
		seed = seed * 6364136223846793005ULL + 1442695040888963407ULL;
		p[i] = (unsigned char)(seed >> 56);
	}
}

static uint64_t mm_hash(const unsigned char *p, uint32_t n)
{
	if(n <= 2048)
		return payload_hash(p, n);
	uint64_t h = payload_hash(p, 1024) ^ (payload_hash(p + n - 1024, 1024) * 7);
	for(uint32_t k = 1; k < 32; k++)
		h = mix64(h, p[(uint64_t)n * k / 32]);
	return h;
}

static struct buddy_state *mm_arena_of(const void *p)
{
	struct mm_state *mm = &mm_lp.mm_state;
	for(array_count_t i = 0; i < array_count(mm->buddies); i++) {
		struct buddy_state *b = array_get_at(mm->buddies, i);
		if((const unsigned char *)p >= b->base_mem && (const unsigned char *)p < b->base_mem + (1u << B_TOTAL_EXP))
			return b;
	}
	return NULL;
}

static uint64_t mm_allocated_bytes(void)
{
	struct mm_state *mm = &mm_lp.mm_state;
	uint64_t sum = 0;
	for(array_count_t b = 0; b < array_count(mm->buddies); b++) {
		const struct buddy_state *bs = array_get_at(mm->buddies, b);
		unsigned st_i[80], st_l[80], sp = 1;
		st_i[0] = 0;
		st_l[0] = B_TOTAL_EXP;
		while(sp) {
			unsigned i = st_i[--sp], l = st_l[sp], lon = bs->longest[i];
			if(!lon)
				sum += 1ull << l;
			else if(lon != l && l > B_BLOCK_EXP) {
				st_i[sp] = buddy_left_child(i);
				st_l[sp++] = l - 1;
				st_i[sp] = buddy_right_child(i);
				st_l[sp++] = l - 1;
			}
		}
	}
	return sum;
}

/* invariants that must hold after every operation */
static void mm_check_all(const char *when, int opi)
{
	struct mm_state *mm = &mm_lp.mm_state;
	/* arenas sorted by address (the lookup relies on it) */
	for(array_count_t i = 1; i < array_count(mm->buddies); i++)
		if(array_get_at(mm->buddies, i - 1) >= array_get_at(mm->buddies, i))
			sim_violation("C12", "arenas-unsorted", "%s op %d: arena list not sorted by address", when, opi);
	uint64_t want = offsetof(struct mm_checkpoint, chkps) + sizeof(struct buddy_state *) +
			(uint64_t)array_count(mm->buddies) * offsetof(struct buddy_checkpoint, base_mem) + mm_allocated_bytes();
	/* an over-estimate only wastes memory; an under-estimate is a heap overflow in the next checkpoint */
	if(mm->full_ckpt_size < want)
		sim_violation("C05", "checkpoint-size", "%s op %d: allocator says a full checkpoint needs %llu bytes, the allocation trees need %llu",
		    when, opi, (unsigned long long)mm->full_ckpt_size, (unsigned long long)want);
	for(int k = 0; k < MM_SLOTS; k++) {
		struct mm_slot *s = &mm_cur[k];
		if(!s->live)
			continue;
		if(!mm_arena_of(s->p) || mm_arena_of(s->p) != mm_arena_of(s->p + s->size - 1))
			sim_violation("C12", "outside-arena", "%s op %d: block %d [%p,+%u) is not inside one arena of the LP", when, opi, k, (void *)s->p,
			    s->size);
		if((uintptr_t)s->p & 15u)
			sim_violation("C12", "misaligned", "%s op %d: block %d at %p is not 16-byte aligned", when, opi, k, (void *)s->p);
		for(int j = 0; j < k; j++)
			if(mm_cur[j].live && s->p < mm_cur[j].p + mm_cur[j].size && mm_cur[j].p < s->p + s->size)
				sim_violation("C12", "overlap", "%s op %d: blocks %d and %d overlap", when, opi, j, k);
		if(mm_hash(s->p, s->size) != s->hash)
			sim_violation("C12", "content-changed", "%s op %d: content of block %d (%u bytes) changed by an operation on another block", when, opi,
			    k, s->size);
	}
	if(array_count(mm->buddies) > mm_arenas_max)
		mm_arenas_max = array_count(mm->buddies);
}

static void mm_expect_fail(void *p, const char *what, uint32_t size, uint64_t before_size, array_count_t before_arenas)
{
	struct mm_state *mm = &mm_lp.mm_state;
	if(p)
		sim_violation("C12", "bad-size-accepted", "%s(%u) returned a block instead of failing", what, size);
	if(mm->full_ckpt_size != before_size || array_count(mm->buddies) != before_arenas)
		sim_violation("C12", "failed-request-changed-state", "%s(%u) failed but changed the allocator state", what, size);
	mm_null_ok++;
}

/* executes operation i on the real allocator; record = first execution (fills the shadow), else replay */
static void mm_exec(int i)
{
	struct mm_opdesc *o = &mm_ops[i];
	struct mm_state *mm = &mm_lp.mm_state;
	uint32_t arena = 1u << B_TOTAL_EXP;
	uint64_t bs = mm->full_ckpt_size;
	array_count_t ba = array_count(mm->buddies);
	struct mm_slot *s = o->slot >= 0 ? &mm_cur[o->slot] : NULL;
	switch(o->op) {
		case OP_MALLOC:
		case OP_CALLOC: {
			if(s->live)
				break;
			unsigned char *p;
			if(o->op == OP_CALLOC) {
				uint32_t nm = o->size && !(o->size % 3) ? 3 : 1;
				p = mk->rs_calloc(nm, o->size / nm);
			} else {
				p = mk->rs_malloc(o->size);
			}
			if(o->size == 0 || o->size > arena) {
				mm_expect_fail(p, o->op == OP_CALLOC ? "rs_calloc" : "rs_malloc", o->size, bs, ba);
				break;
			}
			if(!p)
				sim_violation("C12", "valid-request-failed", "allocation of %u bytes failed", o->size);
			if(o->op == OP_CALLOC)
				for(uint32_t k = 0; k < o->size; k++)
					if(p[k])
						sim_violation("C12", "calloc-not-zeroed", "rs_calloc(%u) returned non-zero memory at offset %u", o->size, k);
			mm_fill(p, 0, o->size, o->seed);
			s->p = p;
			s->size = o->size;
			s->hash = mm_hash(p, o->size);
			s->live = true;
			mm_allocs++;
			break;
		}
		case OP_REALLOC: {
			if(!s->live) {
				/* realloc(NULL, n) behaves like malloc */
				unsigned char *p = mk->rs_realloc(NULL, o->size);
				if(o->size == 0 || o->size > arena) {
					mm_expect_fail(p, "rs_realloc(NULL)", o->size, bs, ba);
					break;
				}
				if(!p)
					sim_violation("C12", "valid-request-failed", "rs_realloc(NULL, %u) failed", o->size);
				mm_fill(p, 0, o->size, o->seed);
				s->p = p;
				s->size = o->size;
				s->hash = mm_hash(p, o->size);
				s->live = true;
				break;
			}
			uint32_t old = s->size;
			uint64_t pre = mm_hash(s->p, old < o->size ? old : o->size);
			unsigned char *p = mk->rs_realloc(s->p, o->size);
			if(o->size == 0 || o->size > arena) {
				mm_expect_fail(p, "rs_realloc", o->size, bs, ba); /* the old block stays valid */
				break;
			}
			if(!p)
				sim_violation("C12", "valid-request-failed", "rs_realloc to %u bytes failed", o->size);
			if(mm_hash(p, old < o->size ? old : o->size) != pre)
				sim_violation("C12", "realloc-prefix", "rs_realloc %u -> %u did not preserve the common prefix", old, o->size);
			if(o->size > old)
				mm_fill(p, old, o->size, o->seed);
			s->p = p;
			s->size = o->size;
			s->hash = mm_hash(p, o->size);
			break;
		}
		case OP_FREE:
			if(!s->live) {
				mk->rs_free(NULL);
				break;
			}
			mk->rs_free(s->p);
			s->live = false;
			break;
		case OP_WRITE:
			if(!s->live)
				break;
			{
				uint32_t off = o->off % s->size, len = o->len;
				if(off + len > s->size)
					len = s->size - off;
				mm_fill(s->p, off, off + len, o->seed);
				s->hash = mm_hash(s->p, s->size);
			}
			break;
		default:
			break;
	}
}

static void mm_compare_with_snapshot(int n_done, const char *when)
{
	struct mm_snap *sn = &mm_snaps[n_done];
	for(int k = 0; k < MM_SLOTS; k++) {
		if(mm_cur[k].live != sn->s[k].live)
			sim_violation("C05", "live-set-after-restore", "%s: block %d is %s after restore+replay to position %d, was %s", when, k,
			    mm_cur[k].live ? "live" : "gone", n_done, sn->s[k].live ? "live" : "gone");
		if(!mm_cur[k].live)
			continue;
		if(mm_cur[k].size != sn->s[k].size || mm_hash(mm_cur[k].p, mm_cur[k].size) != sn->s[k].hash)
			sim_violation("C05", "content-after-restore", "%s: block %d (%u bytes) differs after restore+replay to position %d", when, k,
			    mm_cur[k].size, n_done);
	}
}

const char *units_spin_prop = "C12"; /* which property a never-returning operation of the allocator history violates */

void mm_run(void)
{
	mk = &RK[0];
	struct sim_prng r;
	prng_seed(&r, mix64((uint64_t)P.mseed, 0x3131));
	int n_ops = (int)(P.u_ops < MM_MAXOPS - 1 ? P.u_ops : MM_MAXOPS - 1);
	memset(&mm_lp, 0, sizeof(mm_lp));
	memset(mm_cur, 0, sizeof(mm_cur));
	*mk->p_current_lp() = &mm_lp;
	mk->global_config->log_level = LOG_SILENT;
	mk->model_allocator_lp_init(&mm_lp.mm_state);
	uint32_t arena = 1u << B_TOTAL_EXP;
	int big_bias = (int)prng_below(&r, 3); /* some histories use large blocks so that arenas multiply */
	int ckpt_every = 1 + (int)prng_below(&r, 9);
	int base = 0; /* history positions removed by fossil collection */
	int n_done = 0;
	memset(mm_snaps, 0, sizeof(mm_snaps));
	mk->model_allocator_checkpoint_take(&mm_lp.mm_state, 0);
	mm_snaps[0].ckpt_here = true;
	mm_ckpts++;

	while(n_done < n_ops) {
		/* generate and execute the next operation */
		struct mm_opdesc *o = &mm_ops[n_done];
		uint64_t x = prng_next(&r);
		o->slot = (int)(x % MM_SLOTS);
		o->seed = prng_next(&r);
		o->off = (uint32_t)(x >> 20);
		o->len = 1 + (uint32_t)((x >> 40) % 40);
		unsigned k = (unsigned)((x >> 8) % 16);
		o->op = k < 5 ? OP_MALLOC : k < 7 ? OP_CALLOC : k < 10 ? OP_REALLOC : k < 13 ? OP_FREE : OP_WRITE;
		uint32_t sz = mm_sizes[(x >> 12) % (sizeof(mm_sizes) / sizeof(*mm_sizes))];
		if(sz > arena && ((x >> 50) & 7)) /* over-size requests are the exception */
			sz = big_bias ? arena >> ((x >> 53) & 3) : 16;
		if(big_bias == 2 && sz < arena / 8 && ((x >> 56) & 1))
			sz = arena >> ((x >> 57) & 3);
		o->size = sz;
		mm_exec(n_done);
		n_done++;
		memcpy(mm_snaps[n_done].s, mm_cur, sizeof(mm_cur));
		mm_snaps[n_done].ckpt_here = false;
		mm_check_all("after", n_done - 1);
		sim_event(0xA0, (uint64_t)o->op, ((uint64_t)o->slot << 32) | o->size);

		if(prng_below(&r, 40) == 0) {
			/* a request whose byte count does not fit size_t is an over-size request like any other */
			struct mm_state *mm = &mm_lp.mm_state;
			uint64_t bs = mm->full_ckpt_size;
			array_count_t ba = array_count(mm->buddies);
			void *p = mk->rs_calloc((size_t)-1 / 2 + 2, 2);
			if(p)
				sim_violation("C12", "bad-size-accepted", "rs_calloc(SIZE_MAX/2+2, 2) returned a block instead of failing");
			mm_expect_fail(p, "rs_calloc(overflowing)", 0, bs, ba);
		}
		if(n_done % ckpt_every == 0 || prng_below(&r, 12) == 0) {
			/* the next checkpoint runs under ASan: an under-counted size is a heap overflow right here */
			units_spin_prop = "C05";
			mk->model_allocator_checkpoint_take(&mm_lp.mm_state, (array_count_t)(n_done - base));
			units_spin_prop = "C12";
			mm_snaps[n_done].ckpt_here = true;
			mm_ckpts++;
		}
		if(prng_below(&r, 10) == 0 && n_done > base) {
			/* rollback: restore to an arbitrary earlier position, then replay (coast forward) up to it */
			int target = base + (int)prng_below(&r, (uint64_t)(n_done - base + 1));
			if(prng_below(&r, 4) == 0)
				target = base; /* the oldest kept checkpoint */
			struct mm_state *mm = &mm_lp.mm_state;
			array_count_t arenas_before = array_count(mm->buddies);
			units_spin_prop = "C05";
			array_count_t got = mk->model_allocator_checkpoint_restore(mm, (array_count_t)(target - base));
			units_spin_prop = "C12";
			int from = base + (int)got;
			if(from > target)
				sim_violation("C05", "restore-after-target", "restore to %d used a checkpoint taken at %d", target, from);
			if(!mm_snaps[from].ckpt_here)
				sim_violation("C05", "restore-unknown-checkpoint", "restore to %d reports position %d where no checkpoint was taken", target, from);
			for(int q = from + 1; q <= target; q++)
				if(mm_snaps[q].ckpt_here) {
					sim_violation("C05", "restore-not-latest", "restore to %d used the checkpoint at %d although one exists at %d", target, from, q);
				}
			if(from == target)
				mm_restore_on++;
			else
				mm_restore_between++;
			if(from == base)
				mm_restore_oldest++;
			/* the shadow at the checkpoint: same blocks at the same addresses as when it was taken */
			memcpy(mm_cur, mm_snaps[from].s, sizeof(mm_cur));
			unsigned empty_arenas = 0;
			for(array_count_t a = 0; a < array_count(mm->buddies); a++)
				empty_arenas += array_get_at(mm->buddies, a)->longest[0] == B_TOTAL_EXP;
			if(array_count(mm->buddies) == arenas_before && empty_arenas)
				mm_restore_new_arena++;
			mm_check_all("after restore, before replay", from);
			for(int q = from; q < target; q++) {
				mm_exec(q);
				mm_replayed++;
			}
			mm_check_all("after restore+replay", target);
			mm_compare_with_snapshot(target, "rollback");
			/* checkpoints and history above the target are gone; the shadow follows */
			for(int q = target + 1; q <= n_done; q++)
				mm_snaps[q].ckpt_here = false;
			memcpy(mm_snaps[target].s, mm_cur, sizeof(mm_cur));
			n_done = target;
			mm_restores++;
			sim_event(0xA1, (uint64_t)target, (uint64_t)from);
		}
		if(prng_below(&r, 14) == 0 && n_done > base) {
			/* GVT advanced: everything up to an arbitrary committed frontier may be reclaimed */
			int frontier = base + 1 + (int)prng_below(&r, (uint64_t)(n_done - base));
			struct mm_state *mm = &mm_lp.mm_state;
			units_spin_prop = "C13";
			array_count_t got = mk->model_allocator_fossil_lp_collect(mm, (array_count_t)(frontier - base));
			units_spin_prop = "C12";
			if((int)got > frontier - base)
				sim_violation("C13", "fossil-beyond-target", "allocator released history up to %u, the committed frontier is %d", got,
				    frontier - base);
			if(!array_count(mm->logs))
				sim_violation("C13", "no-checkpoint-left", "fossil collection kept no checkpoint");
			if(array_get_at(mm->logs, 0).ref_i != 0)
				sim_violation("C13", "history-not-at-checkpoint", "oldest kept checkpoint has reference %u after re-basing",
				    array_get_at(mm->logs, 0).ref_i);
			base += (int)got;
			if(!mm_snaps[base].ckpt_here)
				sim_violation("C13", "kept-position-not-a-checkpoint", "history now starts at position %d where no checkpoint was taken", base);
			/* every kept checkpoint must still be where the shadow expects it */
			unsigned kept = 0;
			for(int q = base; q <= n_done; q++)
				kept += mm_snaps[q].ckpt_here;
			if(kept != array_count(mm->logs))
				sim_violation("C13", "checkpoint-count", "after fossil collection the allocator keeps %u checkpoints, %u were taken at kept positions",
				    array_count(mm->logs), kept);
			for(array_count_t l = 0; l < array_count(mm->logs); l++) {
				int pos = base + (int)array_get_at(mm->logs, l).ref_i;
				if(pos > n_done || !mm_snaps[pos].ckpt_here)
					sim_violation("C13", "checkpoint-reference", "kept checkpoint %u refers to position %d where none was taken", l, pos);
			}
			mm_fossils++;
			sim_event(0xA2, (uint64_t)frontier, (uint64_t)got);
		}
	}
	/* freeing makes the space reusable: after freeing everything a maximal request needs no new arena */
	for(int k = 0; k < MM_SLOTS; k++)
		if(mm_cur[k].live) {
			mk->rs_free(mm_cur[k].p);
			mm_cur[k].live = false;
		}
	struct mm_state *mm = &mm_lp.mm_state;
	array_count_t ar = array_count(mm->buddies);
	if(ar) {
		void *p = mk->rs_malloc(arena);
		if(!p || array_count(mm->buddies) != ar)
			sim_violation("C12", "space-not-reusable", "after freeing every block a request of one arena needed a new arena (%u -> %u)", ar,
			    array_count(mm->buddies));
		mk->rs_free(p);
	}
	mm_check_all("final", n_done);
	mk->model_allocator_lp_fini(&mm_lp.mm_state);
}

/* =================================================================================== mq-sim */
#define MQ_MAXT 8
#define MQ_MAXMSG 400
struct mq_msg {
	struct lp_msg *m;
	int dest_thr;
	double ts;
	uint64_t ins_begin, ins_end; /* global scheduling-point sequence numbers */
	uint64_t ext_at;             /* when it was extracted (0 = not yet) */
	int extracted;
};
static struct mq_msg mq_msgs[MQ_MAXMSG];
static int mq_n;
static int mq_threads, mq_arrived, mq_producers_done;
static uint64_t mq_extracts, mq_peeks, mq_null_extracts, mq_concurrent_inserts, mq_cas_retries_seen, mq_antis;
static int mq_inserting; /* inserts in progress */

static int mq_barrier_pred(void *arg) { return mq_arrived >= *(int *)arg; }
static int mq_done_pred(void *arg)
{
	(void)arg;
	return mq_producers_done >= mq_threads;
}

static struct mq_msg *mq_find(struct lp_msg *m)
{
	for(int i = 0; i < mq_n; i++)
		if(mq_msgs[i].m == m)
			return &mq_msgs[i];
	return NULL;
}

/* smallest timestamp among messages for thread r whose insert had returned before seq and that are not extracted */
static double mq_bound(int r, uint64_t seq)
{
	double mn = __builtin_inf();
	for(int i = 0; i < mq_n; i++) {
		struct mq_msg *x = &mq_msgs[i];
		if(x->dest_thr == r && x->ins_end && x->ins_end <= seq && !x->extracted && x->ts < mn)
			mn = x->ts;
	}
	return mn;
}

static void mq_do_extract(int r)
{
	uint64_t begin = G.sps;
	double bound = mq_bound(r, begin);
	struct lp_msg *m = mk->msg_queue_extract();
	mq_extracts++;
	if(!m) {
		mq_null_extracts++;
		if(bound != __builtin_inf())
			sim_violation("C15", "extract-missed", "thread %d: extraction found nothing although a message with t=%g had been inserted before it began",
			    r, bound);
		return;
	}
	struct mq_msg *x = mq_find(m);
	if(!x)
		sim_violation("C15", "extract-unknown", "thread %d extracted a message nobody inserted", r);
	if(x->extracted++)
		sim_violation("C15", "extract-twice", "thread %d extracted message t=%g twice", r, x->ts);
	if(x->dest_thr != r)
		sim_violation("C15", "extract-foreign", "thread %d extracted a message inserted for thread %d", r, x->dest_thr);
	if(!x->ins_begin)
		sim_violation("C15", "extract-before-insert", "message extracted before its insertion began");
	if(x->ts > bound)
		sim_violation("C15", "extract-not-minimum", "thread %d extracted t=%g although t=%g had been inserted before the extraction began", r, x->ts,
		    bound);
	x->ext_at = G.sps;
	sim_event(0xB1, (uint64_t)r, (uint64_t)(x - mq_msgs));
}

static void *mq_thread(void *arg)
{
	int r = (int)(intptr_t)arg;
	*mk->p_rid() = (rid_t)r;
	mk->msg_queue_init();
	mq_arrived++;
	sim_progress();
	int all = mq_threads;
	sim_block_until(mq_barrier_pred, &all, "mq-start");
	struct sim_prng rg;
	prng_seed(&rg, mix64((uint64_t)P.mseed, 0x6000 + (uint64_t)r));
	int n_ops = (int)P.u_ops;
	for(int k = 0; k < n_ops; k++) {
		unsigned what = (unsigned)prng_below(&rg, 10);
		if(what < 5 && mq_n < MQ_MAXMSG) {
			struct mq_msg *x = &mq_msgs[mq_n++];
			struct lp_msg *m = calloc(1, sizeof(*m));
			x->dest_thr = (int)prng_below(&rg, (uint64_t)mq_threads);
			if(P.u_a == 1)
				x->dest_thr = 0; /* all producers hammer one consumer */
			m->dest = (lp_id_t)x->dest_thr; /* one LP per thread: lid_to_rid is the identity */
			m->dest_t = x->ts = (double)prng_below(&rg, 4) * 0.5;
			m->m_type = (uint32_t)prng_below(&rg, 3);
			m->pl_size = 0;
			m->raw_flags = prng_below(&rg, 6) == 0 ? MSG_FLAG_ANTI : 0;
			mq_antis += m->raw_flags != 0;
			x->m = m;
			x->ins_begin = G.sps ? G.sps : 1;
			if(mq_inserting)
				mq_concurrent_inserts++;
			mq_inserting++;
			mk->msg_queue_insert(m);
			mq_inserting--;
			x->ins_end = G.sps;
			sim_progress();
			sim_event(0xB0, (uint64_t)x->dest_thr, (uint64_t)(x - mq_msgs));
		} else if(what < 8) {
			mq_do_extract(r);
		} else {
			uint64_t begin = G.sps;
			double bound = mq_bound(r, begin);
			simtime_t t = mk->msg_queue_time_peek();
			mq_peeks++;
			if(t > bound)
				sim_violation("C15", "peek-not-lower-bound", "thread %d: minimum-time query returned %g although t=%g was inserted before it began", r,
				    t, bound);
		}
	}
	mq_producers_done++;
	sim_progress();
	sim_block_until(mq_done_pred, NULL, "mq-quiesce");
	/* nothing is being inserted any more: everything inserted for this thread must come out exactly once */
	for(;;) {
		uint64_t before = mq_extracts - mq_null_extracts;
		mq_do_extract(r);
		if(mq_extracts - mq_null_extracts == before)
			break;
	}
	return NULL;
}

void mq_run(void)
{
	mk = &RK[0];
	mq_threads = (int)(P.u_threads < MQ_MAXT ? P.u_threads : MQ_MAXT);
	mk->global_config->n_threads = (unsigned)mq_threads;
	mk->global_config->lps = (lp_id_t)mq_threads;
	mk->global_config->log_level = LOG_SILENT;
	*mk->n_lps_node = (lp_id_t)mq_threads;
	*mk->lid_node_first = 0;
	*mk->n_nodes = 1;
	mk->msg_queue_global_init();
	for(int t = 0; t < mq_threads; t++)
		sim_spawn(VTK_UNIT, 0, mq_thread, (void *)(intptr_t)t);
	sim_run_all();
	for(int i = 0; i < mq_n; i++)
		if(mq_msgs[i].extracted != 1)
			sim_violation("C15", "lost", "message %d (t=%g for thread %d) was extracted %d times", i, mq_msgs[i].ts, mq_msgs[i].dest_thr,
			    mq_msgs[i].extracted);
}

/* =================================================================================== bar-sim */
#define BAR_MAXT 8
#define BAR_MAXUSE 70000 /* "indefinitely": a few runs cross the barrier more often than a 16-bit counter can count */
static int bar_threads, bar_uses;
static uint64_t (*bar_enter)[BAR_MAXT], (*bar_leave)[BAR_MAXT];
static int *bar_leaders, *bar_entered;
static uint64_t bar_overlaps;

static void *bar_thread(void *arg)
{
	int r = (int)(intptr_t)arg;
	*mk->p_rid() = (rid_t)r;
	for(int u = 0; u < bar_uses; u++) {
		bar_enter[u][r] = G.sps + 1;
		bar_entered[u]++;
		if(u > 0 && bar_entered[u - 1] == bar_threads) {
			/* a fast thread re-enters while slower ones are still leaving the previous use */
			for(int t = 0; t < bar_threads; t++)
				if(!bar_leave[u - 1][t]) {
					bar_overlaps++;
					break;
				}
		}
		sim_progress();
		bool leader = mk->sync_thread_barrier();
		if(bar_entered[u] != bar_threads)
			sim_violation("C17", "passed-early", "thread %d left use %d of the barrier when only %d of %d threads had entered it", r, u,
			    bar_entered[u], bar_threads);
		bar_leave[u][r] = G.sps + 1;
		if(leader && bar_leaders[u]++)
			sim_violation("C17", "two-leaders", "use %d of the barrier elected more than one leader", u);
		sim_event(0xC0, (uint64_t)u, ((uint64_t)r << 1) | leader);
		sim_progress();
	}
	return NULL;
}

void bar_run(void)
{
	mk = &RK[0];
	bar_threads = (int)(P.u_threads < BAR_MAXT ? P.u_threads : BAR_MAXT);
	bar_uses = (int)(P.u_ops < BAR_MAXUSE ? P.u_ops : BAR_MAXUSE);
	bar_enter = calloc((size_t)bar_uses, sizeof(*bar_enter));
	bar_leave = calloc((size_t)bar_uses, sizeof(*bar_leave));
	bar_leaders = calloc((size_t)bar_uses, sizeof(*bar_leaders));
	bar_entered = calloc((size_t)bar_uses, sizeof(*bar_entered));
	mk->global_config->n_threads = (unsigned)bar_threads;
	for(int t = 0; t < bar_threads; t++)
		sim_spawn(VTK_UNIT, 0, bar_thread, (void *)(intptr_t)t);
	sim_run_all();
	for(int u = 0; u < bar_uses; u++)
		if(bar_leaders[u] != 1)
			sim_violation("C17", "no-leader", "use %d of the barrier elected %d leaders", u, bar_leaders[u]);
}

void units_fill_result(char *buf, size_t n)
{
	if(P.engine == 1)
		snprintf(buf, n,
		    "eng=mm ops=%lld allocs=%llu ckpts=%llu restores=%llu replayed=%llu fossils=%llu arenas=%llu r_on=%llu r_between=%llu r_oldest=%llu "
		    "r_newarena=%llu nullok=%llu fw=%llu",
		    (long long)P.u_ops, (unsigned long long)mm_allocs, (unsigned long long)mm_ckpts, (unsigned long long)mm_restores,
		    (unsigned long long)mm_replayed, (unsigned long long)mm_fossils, (unsigned long long)mm_arenas_max, (unsigned long long)mm_restore_on,
		    (unsigned long long)mm_restore_between, (unsigned long long)mm_restore_oldest, (unsigned long long)mm_restore_new_arena,
		    (unsigned long long)mm_null_ok, (unsigned long long)mm_allocs);
	else if(P.engine == 2)
		snprintf(buf, n, "eng=mq thr=%d msgs=%d extracts=%llu nullext=%llu peeks=%llu coninsert=%llu antis=%llu fw=%d", mq_threads, mq_n,
		    (unsigned long long)mq_extracts, (unsigned long long)mq_null_extracts, (unsigned long long)mq_peeks,
		    (unsigned long long)mq_concurrent_inserts, (unsigned long long)mq_antis, mq_n);
	else
		snprintf(buf, n, "eng=bar thr=%d uses=%d overlaps=%llu fw=%d", bar_threads, bar_uses, (unsigned long long)bar_overlaps, bar_uses);
}

void units_on_hang(const char *cls, const char *sig, const char *detail)
{
	if(P.engine == 3)
		sim_violation("C17", cls, "barrier never released its threads: sig={%s} %s", sig, detail);
	if(P.engine == 2)
		sim_violation("C15", cls, "queue operations never finished: sig={%s} %s", sig, detail);
}
