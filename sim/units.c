/* unit engines (allocator, queue, barrier): placeholders until implemented */
#include "sim.h"
void mm_run(void) { sim_violation("-", "unimplemented", "mm engine"); }
void mq_run(void) { sim_violation("-", "unimplemented", "mq engine"); }
void bar_run(void) { sim_violation("-", "unimplemented", "bar engine"); }
