/* Seeded scheduler: real pthreads, parked on futexes and released one at a time.
 * Exactly one simulated thread runs at any instant; every choice comes from the decision
 * stream (PRNG in seeded mode, explicit sparse trace in replay mode). */
#include "sim.h"

#include <elf.h>
#include <errno.h>
#include <fcntl.h>
#include <limits.h>
#include <link.h>
#include <linux/futex.h>
#include <sched.h>
#include <stdarg.h>
#include <stdlib.h>
#include <string.h>
#include <sys/mman.h>
#include <sys/stat.h>
#include <sys/syscall.h>
#include <sys/time.h>
#include <unistd.h>

struct params P;
struct sim_globals G;
__thread struct vthread *vt_self;
const char *g_replay_out;
int g_result_fd = 1;
bool g_verbose;

#define K_ROTATE 200u
#define J_IDLE(nlive) (700u * (unsigned)((nlive) < 1 ? 1 : (nlive)))

/* ------------------------------------------------------------------ prng */
static inline uint64_t rotl64(uint64_t x, int k) { return (x << k) | (x >> (64 - k)); }

uint64_t mix64(uint64_t a, uint64_t b)
{
	uint64_t z = a + 0x9e3779b97f4a7c15ULL * (b + 1);
	z = (z ^ (z >> 30)) * 0xbf58476d1ce4e5b9ULL;
	z = (z ^ (z >> 27)) * 0x94d049bb133111ebULL;
	return z ^ (z >> 31);
}

void prng_seed(struct sim_prng *r, uint64_t seed)
{
	for(int i = 0; i < 4; i++)
		r->s[i] = mix64(seed, 0x51ed27 + i);
	if(!(r->s[0] | r->s[1] | r->s[2] | r->s[3]))
		r->s[0] = 1;
}

uint64_t prng_next(struct sim_prng *r)
{
	uint64_t *s = r->s;
	uint64_t res = rotl64(s[1] * 5, 7) * 9, t = s[1] << 17;
	s[2] ^= s[0];
	s[3] ^= s[1];
	s[1] ^= s[2];
	s[0] ^= s[3];
	s[2] ^= t;
	s[3] = rotl64(s[3], 45);
	return res;
}

/* ------------------------------------------------------------------ decision trace */
struct tr_ent {
	uint64_t idx;
	int kind;
	int val;
};
static struct tr_ent *tr;
static size_t tr_n, tr_cap, tr_pos;

static void tr_push(uint64_t idx, int kind, int val)
{
	if(tr_n == tr_cap) {
		tr_cap = tr_cap ? tr_cap * 2 : 4096;
		tr = realloc(tr, tr_cap * sizeof(*tr));
	}
	tr[tr_n++] = (struct tr_ent){idx, kind, val};
}

/* One decision.  Seeded mode: the caller computed v from the PRNG; it is logged when non-default.
 * Replay mode: v is ignored and the recorded value (default 0) is returned. */
int sim_commit(int kind, int n, int v)
{
	uint64_t idx = G.didx++;
	if(G.replay) {
		v = 0;
		while(tr_pos < tr_n && tr[tr_pos].idx < idx)
			tr_pos++;
		if(tr_pos < tr_n && tr[tr_pos].idx == idx && tr[tr_pos].kind == kind) {
			v = tr[tr_pos].val;
			tr_pos++;
		}
		if(n > 0 && (v < 0 || v >= n))
			v = 0;
	} else if(v) {
		tr_push(idx, kind, v);
	}
	if(v)
		G.evhash = mix64(G.evhash, ((uint64_t)kind << 56) ^ (idx << 20) ^ (uint64_t)(unsigned)v);
	return v;
}

#define SPIN_EDGE_LIMIT 40000000ULL
static __thread uint64_t spin_edges; /* basic blocks executed by this thread since its last synchronisation operation or recorded event */
static uint64_t spin_max;

void sim_event(uint64_t tag, uint64_t a, uint64_t b)
{
	G.evhash = mix64(mix64(G.evhash, tag), mix64(a, b));
	G.nevents++;
	if(spin_edges > spin_max)
		spin_max = spin_edges;
	spin_edges = 0;
}

/* ------------------------------------------------------------------ probes */
#define PROBE_MAX 96
static struct {
	const char *name;
	uint64_t n;
} probes[PROBE_MAX];
static int n_probes;

void probe_add(const char *name, uint64_t n)
{
	for(int i = 0; i < n_probes; i++)
		if(probes[i].name == name || !strcmp(probes[i].name, name)) {
			probes[i].n += n;
			return;
		}
	if(n_probes < PROBE_MAX) {
		probes[n_probes].name = name;
		probes[n_probes++].n = n;
	}
}
void probe_hit(const char *name) { probe_add(name, 1); }
uint64_t probe_get(const char *name)
{
	for(int i = 0; i < n_probes; i++)
		if(!strcmp(probes[i].name, name))
			return probes[i].n;
	return 0;
}

/* ------------------------------------------------------------------ symbols */
struct sym_ent {
	uintptr_t addr;
	size_t size;
	const char *name;
};
static struct sym_ent *syms;
static size_t n_syms;

static int sym_cmp(const void *a, const void *b)
{
	const struct sym_ent *x = a, *y = b;
	return x->addr < y->addr ? -1 : x->addr > y->addr;
}

static int phdr_cb(struct dl_phdr_info *info, size_t size, void *data)
{
	(void)size;
	*(uintptr_t *)data = info->dlpi_addr;
	return 1; /* first entry is the executable */
}

void sim_symbols_load(void)
{
	if(syms)
		return;
	uintptr_t base = 0;
	dl_iterate_phdr(phdr_cb, &base);
	int fd = open("/proc/self/exe", O_RDONLY);
	if(fd < 0)
		return;
	struct stat st;
	fstat(fd, &st);
	unsigned char *m = mmap(NULL, st.st_size, PROT_READ, MAP_PRIVATE, fd, 0);
	close(fd);
	if(m == MAP_FAILED)
		return;
	Elf64_Ehdr *eh = (Elf64_Ehdr *)m;
	Elf64_Shdr *sh = (Elf64_Shdr *)(m + eh->e_shoff);
	for(int i = 0; i < eh->e_shnum; i++) {
		if(sh[i].sh_type != SHT_SYMTAB)
			continue;
		Elf64_Sym *st_ = (Elf64_Sym *)(m + sh[i].sh_offset);
		size_t cnt = sh[i].sh_size / sizeof(Elf64_Sym);
		const char *strtab = (const char *)(m + sh[sh[i].sh_link].sh_offset);
		syms = malloc(cnt * sizeof(*syms));
		for(size_t k = 0; k < cnt; k++) {
			if(ELF64_ST_TYPE(st_[k].st_info) != STT_OBJECT || !st_[k].st_size)
				continue;
			syms[n_syms++] = (struct sym_ent){base + st_[k].st_value, st_[k].st_size, strtab + st_[k].st_name};
		}
		qsort(syms, n_syms, sizeof(*syms), sym_cmp);
		break;
	}
	/* the mapping stays: names point into it */
}

const char *sim_symbol(const volatile void *addr, char *buf, size_t n)
{
	uintptr_t a = (uintptr_t)addr;
	size_t lo = 0, hi = n_syms;
	while(lo < hi) {
		size_t mid = (lo + hi) / 2;
		if(syms[mid].addr + syms[mid].size <= a)
			lo = mid + 1;
		else if(syms[mid].addr > a)
			hi = mid;
		else {
			const char *nm = syms[mid].name;
			/* drop the rank prefix and gcc's static-local suffix so that signatures are stable */
			if(nm[0] == 'r' && nm[1] >= '0' && nm[1] <= '9' && nm[2] == '_')
				nm += 3;
			snprintf(buf, n, "%s", nm);
			char *dot = strchr(buf, '.');
			if(dot)
				*dot = 0;
			return buf;
		}
	}
	snprintf(buf, n, "heap");
	return buf;
}

void *sim_symbol_addr(const char *name)
{
	for(size_t i = 0; i < n_syms; i++)
		if(!strcmp(syms[i].name, name))
			return (void *)syms[i].addr;
	/* gcc appends .NNNN to function-scope statics */
	size_t l = strlen(name);
	for(size_t i = 0; i < n_syms; i++)
		if(!strncmp(syms[i].name, name, l) && syms[i].name[l] == '.')
			return (void *)syms[i].addr;
	return NULL;
}

/* ------------------------------------------------------------------ futex gates */
static void gate_wait(struct vthread *t)
{
	while(__atomic_load_n(&t->gate, __ATOMIC_ACQUIRE) == 0)
		syscall(SYS_futex, &t->gate, FUTEX_WAIT_PRIVATE, 0, NULL, NULL, 0);
	__atomic_store_n(&t->gate, 0, __ATOMIC_RELAXED);
}

static void gate_open(struct vthread *t)
{
	__atomic_store_n(&t->gate, 1, __ATOMIC_RELEASE);
	syscall(SYS_futex, &t->gate, FUTEX_WAKE_PRIVATE, 1, NULL, NULL, 0);
}

/* ------------------------------------------------------------------ verdicts */
static char note_buf[2048];
static size_t note_len;

void sim_note(const char *fmt, ...)
{
	va_list ap;
	va_start(ap, fmt);
	if(note_len < sizeof(note_buf) - 1) {
		int k = vsnprintf(note_buf + note_len, sizeof(note_buf) - note_len, fmt, ap);
		if(k > 0)
			note_len += (size_t)k < sizeof(note_buf) - note_len ? (size_t)k : sizeof(note_buf) - note_len - 1;
	}
	va_end(ap);
}

static char verdict_prop[16] = "-", verdict_cls[48] = "-", verdict_msg[1500] = "";
static char soft_prop[16], soft_cls[48], soft_msg[1500];
static void soft_to_verdict(void);

extern void engine_fill_result(char *buf, size_t n); /* engine-specific key=value additions */
extern void engine_on_sp(struct vthread *t, int kind, const volatile void *addr);

void sim_finish(const char *status)
{
	static int finishing;
	if(__atomic_exchange_n(&finishing, 1, __ATOMIC_SEQ_CST))
		for(;;)
			pause();
	G.active = false;
	if(!strcmp(status, "ok") && soft_prop[0]) {
		soft_to_verdict();
		status = "viol";
	}
	char extra[3072];
	extra[0] = 0;
	engine_fill_result(extra, sizeof(extra));
	char pb[2600];
	size_t o = 0;
	pb[0] = 0;
	for(int i = 0; i < n_probes && o < sizeof(pb) - 64; i++)
		o += snprintf(pb + o, sizeof(pb) - o, "%s%s:%llu", i ? "," : "", probes[i].name, (unsigned long long)probes[i].n);
	for(char *c = verdict_msg; *c; c++)
		if(*c == '\n' || *c == '"')
			*c = ' ';
	for(char *c = note_buf; *c; c++)
		if(*c == '\n' || *c == '"')
			*c = ' ';
	char line[12000];
	int len = snprintf(line, sizeof(line),
	    "RES seed=%lld status=%s prop=%s cls=%s hash=%016llx sps=%llu dec=%llu cs=%llu vclk=%llu ev=%llu idle=%llu "
	    "f_stall=%llu f_clkjump=%llu f_clkback=%llu f_stop=%llu f_tmpfile=%llu f_edge=%llu f_rot=%llu maxspin=%llu %s probes=%s msg=\"%s\" "
	    "note=\"%s\"\n",
	    (long long)P.seed, status, verdict_prop, verdict_cls, (unsigned long long)G.evhash, (unsigned long long)G.sps,
	    (unsigned long long)G.didx, (unsigned long long)G.ctx_switches, (unsigned long long)G.clock_us,
	    (unsigned long long)G.nevents, (unsigned long long)G.idle_jumps, (unsigned long long)G.f_stalls,
	    (unsigned long long)G.f_clk_jumps, (unsigned long long)G.f_clk_back, (unsigned long long)G.f_stop,
	    (unsigned long long)G.f_tmpfile, (unsigned long long)G.f_edge_yields, (unsigned long long)G.f_rotations,
	    (unsigned long long)(spin_edges > spin_max ? spin_edges : spin_max), extra,
	    pb[0] ? pb : "-", verdict_msg, note_buf);
	if(len > (int)sizeof(line) - 1)
		len = sizeof(line) - 1;
	if(strcmp(status, "ok") && g_replay_out)
		replay_write(g_replay_out, line);
	ssize_t w = write(g_result_fd, line, len);
	(void)w;
	_exit(0);
}

/* A soft violation does not end the run: the first one becomes the verdict when the run ends (or when a fatal violation ends
 * it), and the first violation of every other property met afterwards is listed as "also=<prop>:<class>", so that one run can be
 * attributed to every property it breaks. */
void sim_violation_soft(const char *prop, const char *cls, const char *fmt, ...)
{
	va_list ap;
	va_start(ap, fmt);
	if(!soft_prop[0]) {
		snprintf(soft_prop, sizeof(soft_prop), "%s", prop);
		snprintf(soft_cls, sizeof(soft_cls), "%s", cls);
		vsnprintf(soft_msg, sizeof(soft_msg), fmt, ap);
	} else if(strcmp(prop, soft_prop)) {
		char tag[32];
		snprintf(tag, sizeof(tag), "also=%s:", prop);
		if(!strstr(note_buf, tag))
			sim_note("also=%s:%s ", prop, cls);
	}
	va_end(ap);
}

bool sim_has_soft_violation(void) { return soft_prop[0] != 0; }

static void soft_to_verdict(void)
{
	snprintf(verdict_prop, sizeof(verdict_prop), "%s", soft_prop);
	snprintf(verdict_cls, sizeof(verdict_cls), "%s", soft_cls);
	snprintf(verdict_msg, sizeof(verdict_msg), "%s", soft_msg);
}

void sim_violation(const char *prop, const char *cls, const char *fmt, ...)
{
	va_list ap;
	va_start(ap, fmt);
	if(soft_prop[0]) {
		if(strcmp(prop, soft_prop))
			sim_note("also=%s:%s ", prop, cls);
		soft_to_verdict();
	} else {
		snprintf(verdict_prop, sizeof(verdict_prop), "%s", prop);
		snprintf(verdict_cls, sizeof(verdict_cls), "%s", cls);
		vsnprintf(verdict_msg, sizeof(verdict_msg), fmt, ap);
	}
	va_end(ap);
	sim_finish("viol");
}

/* ------------------------------------------------------------------ replay file */
int replay_load(const char *path)
{
	FILE *f = fopen(path, "r");
	if(!f)
		return -1;
	char line[16384];
	while(fgets(line, sizeof(line), f)) {
		char key[64];
		long long a, b, c;
		if(line[0] == '#')
			continue;
		if(sscanf(line, "d %lld %lld %lld", &a, &b, &c) == 3) {
			tr_push((uint64_t)a, (int)b, (int)c);
			G.have_trace = true;
			continue;
		}
		if(!strncmp(line, "trace", 5)) {
			G.have_trace = true;
			continue;
		}
		if(sscanf(line, "p %63s %lld", key, &a) == 2) {
#define X(n, d)                                                                                                        \
	if(!strcmp(key, #n))                                                                                           \
		P.n = a;
			PARAM_LIST(X)
#undef X
		}
	}
	fclose(f);
	return 0;
}

void replay_write(const char *path, const char *comment)
{
	FILE *f = fopen(path, "w");
	if(!f)
		return;
	fprintf(f, "# ROOT-Sim deterministic-simulation replay file\n");
	if(getenv("VERIF_VARIANT"))
		fprintf(f, "# variant=%s\n", getenv("VERIF_VARIANT"));
	if(comment)
		fprintf(f, "# %s", comment);
#define X(n, d) fprintf(f, "p %s %lld\n", #n, (long long)P.n);
	PARAM_LIST(X)
#undef X
	if(!G.didx && !tr_n) { /* written by the parent for a child that died: decisions are re-drawn from dseed */
		fclose(f);
		return;
	}
	fprintf(f, "trace\n");
	for(size_t i = 0; i < tr_n; i++)
		fprintf(f, "d %llu %d %d\n", (unsigned long long)tr[i].idx, tr[i].kind, tr[i].val);
	fclose(f);
}

/* ------------------------------------------------------------------ progress / hang */
static uint64_t turn_noprog; /* scheduling points of the running thread in this turn without progress */

void sim_progress(void)
{
	G.noprog = 0;
	turn_noprog = 0;
	if(vt_self)
		vt_self->noprog = 0;
}

__attribute__((no_sanitize_address, no_sanitize("undefined"))) static uint64_t peek(const volatile void *addr, unsigned size)
{
	switch(size) {
		case 1:
			return *(const volatile uint8_t *)addr;
		case 2:
			return *(const volatile uint16_t *)addr;
		case 4:
			return *(const volatile uint32_t *)addr;
		case 8:
			return *(const volatile uint64_t *)addr;
		default:
			return 0;
	}
}

static int cmp_str(const void *a, const void *b) { return strcmp(*(char *const *)a, *(char *const *)b); }

static struct {
	int tid;
	const char *func;
	int line;
	uint64_t val;
} ring[256];
static unsigned ring_n;

static void report_hang(const char *cls)
{
	if(g_verbose)
		for(unsigned k = ring_n > 256 ? ring_n - 256 : 0; k < ring_n; k++)
			fprintf(stderr, "sp t%d %s:%d val=%llu\n", ring[k % 256].tid, ring[k % 256].func, ring[k % 256].line,
			    (unsigned long long)ring[k % 256].val);
	char sites[VT_MAX][96];
	char *ps[VT_MAX];
	int n = 0;
	char detail[1200];
	size_t o = 0;
	detail[0] = 0;
	for(int i = 0; i < G.nvt; i++) {
		struct vthread *t = &G.vt[i];
		if(t->state == VT_DONE || t->state == VT_UNUSED)
			continue;
		char sb[64];
		if(t->state == VT_BLOCKED)
			snprintf(sites[n], sizeof(sites[n]), "blocked:%s", t->block_what ? t->block_what : "?");
		else
			snprintf(sites[n], sizeof(sites[n]), "%s@%s", t->sp_func ? t->sp_func : "?",
			    t->sp_addr ? sim_symbol(t->sp_addr, sb, sizeof(sb)) : "-");
		if(o < sizeof(detail) - 100)
			o += snprintf(detail + o, sizeof(detail) - o, "[t%d r%d k%d %s %s:%d] ", t->id, t->rank, t->kind, sites[n],
			    t->sp_file ? (strrchr(t->sp_file, '/') ? strrchr(t->sp_file, '/') + 1 : t->sp_file) : "-", t->sp_line);
		ps[n] = sites[n];
		n++;
	}
	qsort(ps, n, sizeof(*ps), cmp_str);
	char sig[700];
	size_t so = 0;
	sig[0] = 0;
	const char *last = "";
	for(int i = 0; i < n; i++) { /* set, not multiset: the number of threads must not matter */
		if(!strcmp(last, ps[i]))
			continue;
		so += snprintf(sig + so, sizeof(sig) - so, "%s%s", so ? "+" : "", ps[i]);
		last = ps[i];
		if(so > sizeof(sig) - 100)
			break;
	}
	extern void engine_on_hang(const char *cls, const char *sig, const char *detail);
	engine_on_hang(cls, sig, detail);
	sim_violation("C08", cls, "sig={%s} %s", sig, detail);
}

/* ------------------------------------------------------------------ choosing the next thread */
static bool refresh_runnable(struct vthread *t)
{
	if(t->state == VT_BLOCKED && t->block_pred && t->block_pred(t->block_arg)) {
		t->state = VT_RUNNABLE;
		t->block_pred = NULL;
		sim_progress();
	}
	return t->state == VT_RUNNABLE;
}

static int next_cyclic(int from)
{
	for(int k = 1; k <= G.nvt; k++) {
		int i = (from + k) % G.nvt;
		if(G.vt[i].state == VT_RUNNABLE)
			return i;
	}
	return -1;
}

static int default_choice(struct vthread *t)
{
	if(t && t->state == VT_RUNNABLE && turn_noprog < K_ROTATE)
		return t->id;
	int n = next_cyclic(t ? t->id : G.nvt - 1);
	if(n >= 0 && t && n != t->id)
		G.f_rotations++;
	return n;
}

static int policy_choice(struct vthread *t, int def)
{
	struct sim_prng *r = &G.dec_rng;
	int cand[VT_MAX], nc = 0, all[VT_MAX], na = 0;
	/* a system that makes no progress is scheduled fairly so that a deadlock is decided exactly */
	if(G.noprog > J_IDLE(G.live) / 2) {
		for(int i = 0; i < G.nvt; i++)
			G.vt[i].stall_until = 0; /* stalls end when nothing else can move */
		return def;
	}
	for(int i = 0; i < G.nvt; i++) {
		if(G.vt[i].state != VT_RUNNABLE)
			continue;
		all[na++] = i;
		if(G.fair_only || G.vt[i].stall_until <= G.sps)
			cand[nc++] = i;
	}
	if(!nc) {
		memcpy(cand, all, sizeof(int) * na);
		nc = na;
	}
	if(nc <= 1)
		return nc ? cand[0] : def;
	bool self_ok = false;
	if(t)
		for(int i = 0; i < nc; i++)
			self_ok |= cand[i] == t->id;
	if(G.fair_only && P.policy == 1)
		return def;
	switch(P.policy) {
		case 1: { /* pct with a starvation rule: a thread that only polls drops to the lowest priority */
			for(int k = 0; k < P.pct_d && k < 8; k++)
				if(G.pct_change[k] == G.sps && t)
					t->prio = --G.pct_low;
			if(t && turn_noprog >= K_ROTATE) {
				t->prio = --G.pct_low;
				turn_noprog = 0;
			}
			int best = cand[0];
			for(int i = 1; i < nc; i++)
				if(G.vt[cand[i]].prio > G.vt[best].prio)
					best = cand[i];
			return best;
		}
		case 2: /* round robin with random quantum */
			if(self_ok && G.rr_left) {
				G.rr_left--;
				return t->id;
			}
			G.rr_left = 1 + prng_below(r, (uint64_t)(P.rr_q > 0 ? P.rr_q : 1));
			{
				int from = t ? t->id : 0;
				for(int k = 1; k <= G.nvt; k++) {
					int i = (from + k) % G.nvt;
					for(int c = 0; c < nc; c++)
						if(cand[c] == i)
							return i;
				}
			}
			return cand[0];
		default:
			if(self_ok && turn_noprog < 4 * K_ROTATE && (int64_t)prng_below(r, 100) < P.p_stay)
				return t->id;
			return cand[prng_below(r, nc)];
	}
}

static void switch_to(struct vthread *self, int next)
{
	if(self && next == self->id)
		return;
	G.ctx_switches++;
	turn_noprog = 0;
	G.cur = next;
	G.evhash = mix64(G.evhash, 0xC5000000ULL | (uint64_t)next);
	gate_open(&G.vt[next]);
	if(self)
		gate_wait(self);
}

static void all_done_signal(void)
{
	__atomic_store_n(&G.done_futex, 1, __ATOMIC_RELEASE);
	syscall(SYS_futex, &G.done_futex, FUTEX_WAKE_PRIVATE, 1, NULL, NULL, 0);
}

/* The running thread reached a point where another thread may be chosen. */
static void schedule(struct vthread *t)
{
	int nrun = 0;
	for(int i = 0; i < G.nvt; i++)
		nrun += refresh_runnable(&G.vt[i]);
	if(!nrun) {
		if(!G.live) {
			all_done_signal();
			return;
		}
		report_hang("deadlock-all-blocked");
	}
	int def = default_choice(t);
	int chosen = def;
	if(!G.replay)
		chosen = policy_choice(t, def);
	int v = sim_commit(DK_THREAD, VT_MAX + 1, chosen == def ? 0 : chosen + 1);
	if(G.replay) {
		chosen = def;
		if(v > 0 && v - 1 < G.nvt && G.vt[v - 1].state == VT_RUNNABLE)
			chosen = v - 1;
	}
	switch_to(t, chosen);
}

static void fault_points(struct vthread *t)
{
	struct sim_prng *r = &G.dec_rng;
	if(P.clk_jump_rate > 0) {
		int v = 0;
		if(!G.replay && !G.fair_only && (int64_t)prng_below(r, 100000) < P.clk_jump_rate)
			v = 1 + (int)prng_below(r, 7);
		v = sim_commit(DK_CLOCK, 8, v);
		if(v) {
			static const uint64_t jumps[] = {0, 1, 50, 1000, 100000, 5000000, 3600000000ULL, 7};
			if(v == 7 || (v == 6 && !P.clk_back)) {
				if(P.clk_back) { /* gettimeofday() is not monotonic */
					G.clock_us -= G.clock_us > 40 ? 40 : 0;
					G.f_clk_back++;
				}
			} else {
				G.clock_us += jumps[v];
				G.f_clk_jumps++;
			}
		}
	}
	if(P.stall_rate > 0 && !G.replay && !G.fair_only && (int64_t)prng_below(r, 100000) < P.stall_rate) {
		/* stalls only bias the policy; the resulting thread choices are what the trace records */
		int x = (int)prng_below(r, G.nvt);
		uint64_t len = 1 + prng_below(r, (uint64_t)(P.stall_len > 0 ? P.stall_len : 1));
		if(P.n_ranks > 1 && prng_below(r, 3) == 0) { /* whole rank is slow */
			for(int i = 0; i < G.nvt; i++)
				if(G.vt[i].rank == G.vt[x].rank)
					G.vt[i].stall_until = G.sps + len;
		} else {
			G.vt[x].stall_until = G.sps + len;
		}
		G.f_stalls++;
	}
	(void)t;
}

static void sp_tail(struct vthread *t)
{
	if(!G.fair_only && P.horizon > 0 && G.sps >= (uint64_t)P.horizon) {
		G.fair_only = true; /* liveness is judged under a fair scheduler once the faults have stopped */
		for(int i = 0; i < G.nvt; i++)
			G.vt[i].stall_until = 0;
	}
	if(G.sps > (uint64_t)P.max_sps)
		report_hang("budget-exhausted");
	unsigned J = J_IDLE(G.live);
	if(G.noprog && G.noprog % J == 0) {
		if(G.noprog >= 6ull * J)
			report_hang("deadlock");
		/* nothing can happen until a timer expires: discrete-event jump */
		G.clock_us += 2 * (uint64_t)P.gvt_period + 1000;
		G.idle_jumps++;
	}
	if(P.clk_den > 0 && G.sps % (uint64_t)P.clk_den == 0)
		G.clock_us += (uint64_t)(P.clk_step > 0 ? P.clk_step : 1);
	fault_points(t);
	schedule(t);
}

static void sp_common(struct vthread *t, int kind, const volatile void *addr, unsigned size, const char *file, int line,
    const char *func)
{
	if(spin_edges > spin_max)
		spin_max = spin_edges;
	spin_edges = 0;
	/* did the previous operation of this thread change shared state? */
	if(t->sp_addr && t->sp_kind != VSP_LOAD_K && peek(t->sp_addr, t->sp_size) != t->sp_pre)
		sim_progress();
	G.sps++;
	t->sps++;
	t->noprog++;
	G.noprog++;
	turn_noprog++;
	t->sp_kind = kind;
	t->sp_addr = addr;
	t->sp_size = size;
	t->sp_file = file;
	t->sp_line = line;
	t->sp_func = func;
	if(addr)
		engine_on_sp(t, kind, addr);
	if(g_verbose) {
		ring[ring_n % 256].tid = t->id;
		ring[ring_n % 256].func = func;
		ring[ring_n % 256].line = line;
		ring[ring_n++ % 256].val = addr ? peek(addr, size) : 0;
	}
	sp_tail(t);
	t->sp_pre = addr ? peek(addr, size) : 0;
}

/* a preemption between two visible operations: the thread's last visible operation stays what it was */
static void sp_edge(struct vthread *t)
{
	bool changed = t->sp_addr && t->sp_kind != VSP_LOAD_K && peek(t->sp_addr, t->sp_size) != t->sp_pre;
	if(changed)
		sim_progress();
	G.sps++;
	t->sps++;
	t->noprog++;
	G.noprog++;
	sp_tail(t);
	if(changed && t->sp_addr) /* already accounted: do not count the same change twice */
		t->sp_pre = peek(t->sp_addr, t->sp_size);
}

void verif_sp(int kind, const volatile void *addr, unsigned size, const char *file, int line, const char *func)
{
	struct vthread *t = vt_self;
	if(!t || !G.active)
		return;
	sp_common(t, kind, addr, size, file, line, func);
}

void sim_yield_at(const char *what)
{
	struct vthread *t = vt_self;
	if(!t || !G.active)
		return;
	sp_common(t, VSP_LOAD_K, NULL, 0, "sim", 0, what);
}

void sim_yield(void) { sim_yield_at("yield"); }

/* ------------------------------------------------------------------ edge coverage and basic-block preemption */
unsigned char *g_pcmap; /* shared with the parent worker */
#define PCMAP_SZ 65536u
static __thread uint64_t edge_cnt;

__attribute__((no_sanitize_address)) void __sanitizer_cov_trace_pc(void)
{
	if(g_pcmap)
		g_pcmap[((uintptr_t)__builtin_return_address(0) >> 1) & (PCMAP_SZ - 1)] = 1;
	struct vthread *t = vt_self;
	if(!t && P.engine == 1 && g_result_fd >= 0) {
		/* the allocator history runs on the main thread of the child: an operation that executes this many basic blocks never returns */
		if(++spin_edges > SPIN_EDGE_LIMIT) {
			spin_edges = 0;
			extern const char *units_spin_prop;
			sim_violation(units_spin_prop, "operation-does-not-return", "an allocator operation executed %llu basic blocks without returning",
			    (unsigned long long)SPIN_EDGE_LIMIT);
		}
		return;
	}
	if(!t || !G.active)
		return;
	/* a thread that executes this many basic blocks of the runtime without a single synchronisation operation is in a loop that no
	 * other thread can end (the count is a function of the execution alone, so the verdict replays) */
	if(++spin_edges > SPIN_EDGE_LIMIT) {
		spin_edges = 0;
		report_hang("spin-without-synchronisation");
	}
	if(P.edge_every <= 0)
		return;
	if(++edge_cnt < (uint64_t)P.edge_every)
		return;
	edge_cnt = 0;
	int v = 0;
	if(!G.replay && !G.fair_only)
		v = prng_below(&G.dec_rng, 4) == 0;
	if(sim_commit(DK_EDGE, 2, v)) {
		G.f_edge_yields++;
		turn_noprog = 4 * K_ROTATE; /* make the random policy leave this thread */
		sp_edge(t);
	}
}

/* ------------------------------------------------------------------ threads */
static void *trampoline(void *arg)
{
	struct vthread *t = arg;
	vt_self = t;
	gate_wait(t);
	sim_progress();
	t->ret = t->fn(t->arg);
	/* exit: never comes back */
	if(t->sp_addr && t->sp_kind != VSP_LOAD_K && peek(t->sp_addr, t->sp_size) != t->sp_pre)
		sim_progress();
	t->state = VT_DONE;
	G.live--;
	sim_progress();
	sim_event(0x7e, (uint64_t)t->id, 0);
	vt_self = NULL;
	int nrun = 0;
	for(int i = 0; i < G.nvt; i++)
		nrun += refresh_runnable(&G.vt[i]);
	if(!nrun) {
		if(G.live)
			report_hang("deadlock-all-blocked");
		all_done_signal();
		return NULL;
	}
	int def = next_cyclic(t->id);
	int chosen = def;
	if(!G.replay)
		chosen = policy_choice(NULL, def);
	int v = sim_commit(DK_THREAD, VT_MAX + 1, chosen == def ? 0 : chosen + 1);
	if(G.replay) {
		chosen = def;
		if(v > 0 && v - 1 < G.nvt && G.vt[v - 1].state == VT_RUNNABLE)
			chosen = v - 1;
	}
	G.ctx_switches++;
	turn_noprog = 0;
	G.cur = chosen;
	gate_open(&G.vt[chosen]);
	return NULL;
}

struct vthread *sim_spawn(int kind, int rank, void *(*fn)(void *), void *arg)
{
	if(G.nvt >= VT_MAX) {
		fprintf(stderr, "too many simulated threads\n");
		abort();
	}
	struct vthread *t = &G.vt[G.nvt];
	memset(t, 0, sizeof(*t));
	t->id = G.nvt++;
	t->rank = rank;
	t->kind = kind;
	t->fn = fn;
	t->arg = arg;
	t->state = VT_RUNNABLE;
	t->prio = 1000 + (int)prng_below(&G.aux_rng, 1000000);
	G.live++;
	pthread_attr_t at;
	pthread_attr_init(&at);
	pthread_attr_setstacksize(&at, 24u << 20);
	if(pthread_create(&t->pt, &at, trampoline, t)) {
		perror("pthread_create");
		abort();
	}
	pthread_attr_destroy(&at);
	sim_progress();
	sim_event(0x75, (uint64_t)t->id, (uint64_t)kind);
	return t;
}

void sim_init_run(void)
{
	soft_prop[0] = 0;
	memset(&G, 0, sizeof(G));
	G.replay = false;
	prng_seed(&G.dec_rng, mix64((uint64_t)P.dseed, 0xdec));
	prng_seed(&G.tsc_rng, mix64((uint64_t)P.tsc_seed, 0x75c));
	prng_seed(&G.aux_rng, mix64((uint64_t)P.dseed, 0xa0c));
	G.clock_us = 1700000000ull * 1000000ull;
	G.tsc = 1000;
	G.pct_low = 0;
	for(int k = 0; k < 8; k++)
		G.pct_change[k] = 1 + prng_below(&G.aux_rng, 20000);
	turn_noprog = 0;
}

void sim_run_all(void)
{
	G.active = true;
	int nrun = 0;
	for(int i = 0; i < G.nvt; i++)
		nrun += G.vt[i].state == VT_RUNNABLE;
	if(!nrun)
		return;
	int def = next_cyclic(G.nvt - 1);
	int chosen = def;
	if(!G.replay)
		chosen = policy_choice(NULL, def);
	int v = sim_commit(DK_THREAD, VT_MAX + 1, chosen == def ? 0 : chosen + 1);
	if(G.replay) {
		chosen = def;
		if(v > 0 && v - 1 < G.nvt && G.vt[v - 1].state == VT_RUNNABLE)
			chosen = v - 1;
	}
	G.cur = chosen;
	gate_open(&G.vt[chosen]);
	while(__atomic_load_n(&G.done_futex, __ATOMIC_ACQUIRE) == 0)
		syscall(SYS_futex, &G.done_futex, FUTEX_WAIT_PRIVATE, 0, NULL, NULL, 0);
	G.active = false;
	for(int i = 0; i < G.nvt; i++)
		if(G.vt[i].kind != VTK_WORKER) /* workers are joined by the code under test */
			pthread_join(G.vt[i].pt, NULL);
}

void sim_block_until(int (*pred)(void *), void *arg, const char *what)
{
	struct vthread *t = vt_self;
	if(!t || !G.active)
		return;
	if(pred(arg))
		return;
	t->state = VT_BLOCKED;
	t->block_pred = pred;
	t->block_arg = arg;
	t->block_what = what;
	t->sp_addr = NULL;
	schedule(t);
}

/* ------------------------------------------------------------------ redirected libc / pthread entry points */
int verif_pthread_create(pthread_t *thr, const pthread_attr_t *attr, void *(*fn)(void *), void *arg)
{
	if(!vt_self || !G.active)
		return pthread_create(thr, attr, fn, arg);
	struct vthread *t = sim_spawn(VTK_WORKER, vt_self->rank, fn, arg);
	*thr = (pthread_t)(uintptr_t)(t->id + 1);
	sim_yield();
	return 0;
}

static int join_pred(void *arg) { return ((struct vthread *)arg)->state == VT_DONE; }

int verif_pthread_join(pthread_t thr, void **ret)
{
	if(!vt_self || !G.active)
		return pthread_join(thr, ret);
	int id = (int)(uintptr_t)thr - 1;
	if(id < 0 || id >= G.nvt)
		return ESRCH;
	struct vthread *t = &G.vt[id];
	sim_block_until(join_pred, t, "join");
	pthread_join(t->pt, NULL);
	if(ret)
		*ret = t->ret;
	return 0;
}

int verif_pthread_setaffinity_np(pthread_t thr, size_t sz, const cpu_set_t *set)
{
	(void)thr;
	(void)sz;
	(void)set;
	probe_hit("affinity_set");
	return 0;
}

int verif_sched_getaffinity(pid_t pid, size_t sz, cpu_set_t *set)
{
	(void)pid;
	memset(set, 0, sz);
	for(int i = 0; i < 64 && (size_t)i < sz * 8; i++)
		CPU_SET(i, set);
	return 0;
}

long verif_sysconf(int name)
{
	if(name == _SC_NPROCESSORS_ONLN)
		return 64;
	return sysconf(name);
}

int verif_gettimeofday(struct timeval *tv, void *tz)
{
	(void)tz;
	tv->tv_sec = (time_t)(G.clock_us / 1000000u);
	tv->tv_usec = (suseconds_t)(G.clock_us % 1000000u);
	return 0;
}

unsigned long long verif_rdtsc(void)
{
	/* strictly increasing per call (a real TSC never reads equal across a dispatcher call) */
	G.tsc += 1 + (prng_next(&G.tsc_rng) & 0x3ff);
	return G.tsc;
}

FILE *verif_tmpfile(void)
{
	G.tmpfile_calls++;
	if(P.tmpfile_fail > 0 && G.tmpfile_calls == (uint64_t)P.tmpfile_fail) {
		G.f_tmpfile++;
		errno = EMFILE;
		return NULL;
	}
	int fd = memfd_create("verif_tmp", 0);
	if(fd < 0)
		return NULL;
	return fdopen(fd, "wb+");
}
