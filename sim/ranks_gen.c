/* Table of entry points of every rank copy of the core (symbols prefixed by objcopy). */
#include "ranks.h"

#include <datatypes/msg_queue.h>
#include <gvt/fossil.h>
#include <gvt/gvt.h>
#include <gvt/termination.h>
#include <lib/random/random.h>
#include <mm/auto_ckpt.h>
#include <mm/model_allocator.h>
#include <mm/msg_allocator.h>
#include <core/sync.h>
#include <distributed/mpi.h>

#define DECL_RANK(p)                                                                                                   \
	extern __typeof__(RootsimInit) p##RootsimInit;                                                                 \
	extern __typeof__(RootsimRun) p##RootsimRun;                                                                   \
	extern __typeof__(RootsimStop) p##RootsimStop;                                                                 \
	extern __typeof__(ScheduleNewEvent) p##ScheduleNewEvent;                                                       \
	extern __typeof__(SetState) p##SetState;                                                                       \
	extern __typeof__(rs_malloc) p##rs_malloc;                                                                     \
	extern __typeof__(rs_calloc) p##rs_calloc;                                                                     \
	extern __typeof__(rs_free) p##rs_free;                                                                         \
	extern __typeof__(rs_realloc) p##rs_realloc;                                                                   \
	extern __typeof__(Random) p##Random;                                                                           \
	extern __typeof__(RandomU64) p##RandomU64;                                                                     \
	extern __typeof__(Poisson) p##Poisson;                                                                         \
	extern __typeof__(Normal) p##Normal;                                                                           \
	extern __typeof__(RandomRange) p##RandomRange;                                                                 \
	extern __typeof__(RandomRangeNonUniform) p##RandomRangeNonUniform;                                             \
	extern __typeof__(Gamma) p##Gamma;                                                                             \
	extern __typeof__(Zipf) p##Zipf;                                                                               \
	extern __typeof__(CountRegions) p##CountRegions;                                                               \
	extern __typeof__(CountDirections) p##CountDirections;                                                         \
	extern __typeof__(GetReceiver) p##GetReceiver;                                                                 \
	extern __typeof__(ReleaseTopology) p##ReleaseTopology;                                                         \
	extern __typeof__(AddTopologyLink) p##AddTopologyLink;                                                         \
	extern __typeof__(IsNeighbor) p##IsNeighbor;                                                                   \
	extern __typeof__(vInitializeTopology) p##vInitializeTopology;                                                 \
	extern __typeof__(random_lib_lp_init) p##random_lib_lp_init;                                                   \
	extern __typeof__(msg_queue_global_init) p##msg_queue_global_init;                                             \
	extern __typeof__(msg_queue_init) p##msg_queue_init;                                                           \
	extern __typeof__(msg_queue_fini) p##msg_queue_fini;                                                           \
	extern __typeof__(msg_queue_insert) p##msg_queue_insert;                                                       \
	extern __typeof__(msg_queue_extract) p##msg_queue_extract;                                                     \
	extern __typeof__(msg_queue_time_peek) p##msg_queue_time_peek;                                                 \
	extern __typeof__(msg_allocator_init) p##msg_allocator_init;                                                   \
	extern __typeof__(msg_allocator_alloc) p##msg_allocator_alloc;                                                 \
	extern __typeof__(msg_allocator_free) p##msg_allocator_free;                                                   \
	extern __typeof__(msg_allocator_free_at_gvt) p##msg_allocator_free_at_gvt;                                     \
	extern __typeof__(msg_allocator_on_gvt) p##msg_allocator_on_gvt;                                               \
	extern __typeof__(fossil_lp_collect) p##fossil_lp_collect;                                                     \
	extern __typeof__(fossil_on_gvt) p##fossil_on_gvt;                                                             \
	extern __typeof__(termination_on_gvt) p##termination_on_gvt;                                                   \
	extern __typeof__(termination_on_lp_rollback) p##termination_on_lp_rollback;                                   \
	extern __typeof__(termination_on_msg_process) p##termination_on_msg_process;                                   \
	extern __typeof__(termination_lp_init) p##termination_lp_init;                                                 \
	extern __typeof__(model_allocator_lp_init) p##model_allocator_lp_init;                                         \
	extern __typeof__(model_allocator_lp_fini) p##model_allocator_lp_fini;                                         \
	extern __typeof__(model_allocator_checkpoint_take) p##model_allocator_checkpoint_take;                         \
	extern __typeof__(model_allocator_checkpoint_restore) p##model_allocator_checkpoint_restore;                   \
	extern __typeof__(model_allocator_fossil_lp_collect) p##model_allocator_fossil_lp_collect;                     \
	extern __typeof__(process_lp_init) p##process_lp_init;                                                         \
	extern __typeof__(process_lp_fini) p##process_lp_fini;                                                         \
	extern __typeof__(process_msg) p##process_msg;                                                                 \
	extern __typeof__(lp_init) p##lp_init;                                                                         \
	extern __typeof__(lp_fini) p##lp_fini;                                                                         \
	extern __typeof__(stats_take) p##stats_take;                                                                   \
	extern __typeof__(stats_on_gvt) p##stats_on_gvt;                                                               \
	extern __typeof__(gvt_phase_run) p##gvt_phase_run;                                                             \
	extern __typeof__(gvt_msg_drain) p##gvt_msg_drain;                                                             \
	extern __typeof__(sync_thread_barrier) p##sync_thread_barrier;                                                 \
	extern __typeof__(auto_ckpt_on_gvt) p##auto_ckpt_on_gvt;                                                       \
	extern __typeof__(auto_ckpt_init) p##auto_ckpt_init;                                                           \
	extern __typeof__(stats_global_init) p##stats_global_init;                                                     \
	extern __typeof__(stats_init) p##stats_init;                                                                   \
	extern __typeof__(lp_global_init) p##lp_global_init;                                                           \
	extern __typeof__(termination_global_init) p##termination_global_init;                                         \
	extern __typeof__(gvt_global_init) p##gvt_global_init;                                                         \
	extern __typeof__(mpi_remote_msg_handle) p##mpi_remote_msg_handle;                                             \
	extern struct lp_ctx *p##lps;                                                                                  \
	extern struct simulation_configuration p##global_config;                                                       \
	extern nid_t p##nid, p##n_nodes;                                                                               \
	extern lp_id_t p##n_lps_node;                                                                                  \
	extern uint64_t p##lid_node_first;                                                                             \
	extern __thread rid_t p##rid;                                                                                  \
	extern __thread struct lp_ctx *p##current_lp;                                                                  \
	extern __thread uint64_t p##lid_thread_first, p##lid_thread_end;                                               \
	static rid_t *p##p_rid(void) { return &p##rid; }                                                               \
	static struct lp_ctx **p##p_current_lp(void) { return &p##current_lp; }                                        \
	static uint64_t *p##p_lid_thread_first(void) { return &p##lid_thread_first; }                                  \
	static uint64_t *p##p_lid_thread_end(void) { return &p##lid_thread_end; }

#define F(p, n) .n = p##n
#define FILL_RANK(p)                                                                                                   \
	{                                                                                                              \
		F(p, RootsimInit), F(p, RootsimRun), F(p, RootsimStop), F(p, ScheduleNewEvent), F(p, SetState),        \
		    F(p, rs_malloc), F(p, rs_calloc), F(p, rs_free), F(p, rs_realloc), F(p, Random), F(p, RandomU64),  \
		    F(p, Poisson), F(p, Normal), F(p, RandomRange), F(p, RandomRangeNonUniform), F(p, Gamma),          \
		    F(p, Zipf), F(p, CountRegions), F(p, CountDirections), F(p, GetReceiver), F(p, ReleaseTopology),   \
		    F(p, AddTopologyLink), F(p, IsNeighbor), F(p, vInitializeTopology), F(p, random_lib_lp_init),      \
		    F(p, msg_queue_global_init), F(p, msg_queue_init), F(p, msg_queue_fini), F(p, msg_queue_insert), F(p, msg_queue_extract), \
		    F(p, msg_queue_time_peek), F(p, msg_allocator_init), F(p, msg_allocator_alloc),                    \
		    F(p, msg_allocator_free), F(p, msg_allocator_free_at_gvt), F(p, msg_allocator_on_gvt),             \
		    F(p, fossil_lp_collect), F(p, fossil_on_gvt), F(p, termination_on_gvt),                            \
		    F(p, termination_on_lp_rollback), F(p, termination_on_msg_process), F(p, termination_lp_init),     \
		    F(p, model_allocator_lp_init), F(p, model_allocator_lp_fini), F(p, model_allocator_checkpoint_take), \
		    F(p, model_allocator_checkpoint_restore), F(p, model_allocator_fossil_lp_collect),                 \
		    F(p, process_lp_init), F(p, process_lp_fini), F(p, process_msg), F(p, lp_init), F(p, lp_fini), F(p, stats_take),                 \
		    F(p, stats_on_gvt), F(p, gvt_phase_run), F(p, gvt_msg_drain), F(p, sync_thread_barrier),           \
		    F(p, auto_ckpt_on_gvt), F(p, auto_ckpt_init), F(p, stats_global_init), F(p, stats_init), F(p, lp_global_init), F(p, termination_global_init), F(p, gvt_global_init), F(p, mpi_remote_msg_handle), .lps = &p##lps,                               \
		    .global_config = &p##global_config, .nid = &p##nid, .n_nodes = &p##n_nodes,                        \
		    .n_lps_node = &p##n_lps_node, .lid_node_first = &p##lid_node_first, .p_rid = p##p_rid,             \
		    .p_current_lp = p##p_current_lp, .p_lid_thread_first = p##p_lid_thread_first,                      \
		    .p_lid_thread_end = p##p_lid_thread_end,                                                           \
	}

DECL_RANK(r0_)
#if VERIF_NRANKS > 1
DECL_RANK(r1_)
#endif
#if VERIF_NRANKS > 2
DECL_RANK(r2_)
#endif
#if VERIF_NRANKS > 3
DECL_RANK(r3_)
#endif

struct rank_api RK[VERIF_NRANKS] = {
    FILL_RANK(r0_),
#if VERIF_NRANKS > 1
    FILL_RANK(r1_),
#endif
#if VERIF_NRANKS > 2
    FILL_RANK(r2_),
#endif
#if VERIF_NRANKS > 3
    FILL_RANK(r3_),
#endif
};
