/* Command line, swarm parameter generation, fork-per-run worker loop. */
#include "sim.h"

#include <errno.h>
#include <fcntl.h>
#include <poll.h>
#include <sched.h>
#include <signal.h>
#include <stdlib.h>
#include <string.h>
#include <sys/mman.h>
#include <sys/personality.h>
#include <sys/stat.h>
#include <sys/wait.h>
#include <time.h>
#include <unistd.h>

#ifndef VERIF_NRANKS
#define VERIF_NRANKS 1
#endif
#ifndef VERIF_ARENA_SMALL
#define VERIF_ARENA_SMALL 0
#endif

extern void tw_run(void);
extern void mm_run(void);
extern void mq_run(void);
extern void bar_run(void);
extern unsigned char *g_pcmap;

__attribute__((used)) const char *__asan_default_options(void)
{
	return "exitcode=77:detect_leaks=0:abort_on_error=0:allocator_may_return_null=1:detect_stack_use_after_return=0:"
	       "handle_abort=0:print_summary=1:malloc_context_size=8";
}
__attribute__((used)) const char *__ubsan_default_options(void) { return "exitcode=77:print_stacktrace=1:halt_on_error=1"; }

/* ------------------------------------------------------------------ swarm: one seed -> one run description */
static int64_t pick(struct sim_prng *r, const int64_t *v, int n) { return v[prng_below(r, n)]; }
#define PICK(r, ...) pick(r, (const int64_t[]){__VA_ARGS__}, (int)(sizeof((const int64_t[]){__VA_ARGS__}) / sizeof(int64_t)))

static void params_default(void)
{
#define X(n, d) P.n = d;
	PARAM_LIST(X)
#undef X
}

static void gen_schedule(struct sim_prng *r)
{
	P.policy = PICK(r, 0, 0, 0, 1, 1, 2);
	P.p_stay = PICK(r, 0, 50, 90, 90, 99);
	P.pct_d = 1 + (int64_t)prng_below(r, 5);
	P.rr_q = PICK(r, 1, 5, 50, 300);
	P.stall_rate = PICK(r, 0, 0, 20, 100, 400);
	P.stall_len = PICK(r, 200, 2000, 10000);
	P.clk_den = PICK(r, 0, 1, 1, 1, 4, 4, 16, 64);
	P.clk_step = PICK(r, 1, 1, 1, 10, 100);
	P.clk_jump_rate = PICK(r, 0, 0, 10, 100);
	P.clk_back = PICK(r, 0, 0, 1);
	P.edge_every = PICK(r, 0, 0, 0, 0, 40, 400);
}

static void gen_model(struct sim_prng *r)
{
	P.m_budget = PICK(r, 1, 3, 8, 15, 30, 60, 120);
	P.m_budget_var = PICK(r, 0, 0, 3, 10);
	P.m_absorbing = 1;
	P.m_fanout = PICK(r, 0, 1, 1, 2, 3);
	P.m_dest = PICK(r, 0, 0, 0, 1, 2, 3);
	P.m_ts = PICK(r, 0, 0, 0, 1, 2);
	P.m_pl = PICK(r, 0, 1, 2, 2);
	P.m_init_ev = PICK(r, 1, 1, 2, 3);
	P.m_init_t0 = PICK(r, 0, 0, 1);
	P.m_pred = PICK(r, 0, 0, 0, 0, 0, 0, 1, 1, 2, 2, 4);
	if(P.m_pred == 2)
		P.m_init_t0 = 1;
	P.m_mem = PICK(r, 0, 1, 2, 2);
	P.m_rng = PICK(r, 0, 0, 1, 2);
	P.m_nosend = PICK(r, 0, 1);
	P.m_rng_init = PICK(r, 0, 1);
	P.m_rng_craft = PICK(r, 0, 0, 1);
	P.m_forward = PICK(r, 0, 0, 1);
}

static void gen_params(const char *profile, uint64_t base, long idx)
{
	struct sim_prng rc, rm, rs;
	uint64_t seed = mix64(base, (uint64_t)idx);
	uint64_t mseed = seed;
	bool c09 = !strcmp(profile, "c09");
	if(c09) /* metamorphic groups of 4: same model and prng seed, different configuration and schedule */
		mseed = mix64(base, 0xC09000u + (uint64_t)(idx / 4));
	params_default();
	prng_seed(&rc, mix64(seed, 0xc0f));
	prng_seed(&rm, mix64(mseed, 0x30d));
	prng_seed(&rs, mix64(seed, 0x5c4));
	P.seed = (int64_t)(seed & 0x7fffffffffffffffULL);
	P.dseed = (int64_t)(mix64(seed, 1) >> 1);
	P.mseed = (int64_t)(mix64(mseed, 2) >> 1);
	P.prng_seed = (int64_t)(mix64(mseed, 3) >> 1);
	P.tsc_seed = (int64_t)(mix64(seed, 4) >> 1);
	P.engine = 0;
	P.n_ranks = 1;
	P.n_threads = PICK(&rc, 1, 2, 2, 2, 3, 3, 4, 6);
	P.n_lps = PICK(c09 ? &rm : &rc, 1, 2, 3, 4, 4, 5, 6, 8, 8, 11, 16);
	P.ckpt_interval = PICK(&rc, 0, 1, 2, 3, 5, 8);
	P.gvt_period = PICK(&rc, 0, 0, 0, 1, 1, 5, 50, 300, 1000, 100000);
	gen_model(&rm);
	gen_schedule(&rs);

	if(!strcmp(profile, "tw")) {
		/* general single-rank profile */
	} else if(!strcmp(profile, "drv")) {
		/* one worker driven by the harness: adversarial delivery order and GVT announcements */
		P.engine = 5;
		P.n_threads = 1;
		P.n_lps = PICK(&rc, 1, 2, 2, 3, 4);
		P.ckpt_interval = PICK(&rc, 1, 1, 2, 3, 5, 8, 0);
		P.m_budget = PICK(&rm, 5, 10, 20, 40, 80);
		P.m_fanout = PICK(&rm, 0, 0, 1, 2);
		P.m_absorbing = PICK(&rm, 0, 1);
		P.m_extra = 5;
		P.m_nosend = PICK(&rm, 0, 1, 1);
		P.m_mem = PICK(&rm, 0, 1, 2);
		if(P.m_pred == 3)
			P.m_absorbing = 0;
		P.policy = 0;
		P.stall_rate = 0;
		P.clk_jump_rate = 0;
		P.edge_every = 0;
	} else if(!strcmp(profile, "long")) {
		/* a GVT reduction costs ~14 main-loop iterations of every thread: only long runs see fossil collections followed by rollbacks */
		P.m_budget = PICK(&rm, 100, 200, 400);
		P.n_lps = PICK(&rc, 2, 3, 4, 6, 8);
		P.n_threads = PICK(&rc, 2, 2, 3, 4);
		P.gvt_period = PICK(&rc, 0, 0, 1, 5);
		P.clk_den = PICK(&rs, 1, 1, 4);
		P.m_mem = PICK(&rm, 0, 1, 1);
		P.ckpt_interval = PICK(&rc, 0, 1, 2, 3, 5, 8, 20);
	} else if(!strcmp(profile, "c03")) {
		/* also runs that end with a speculative final state */
		P.m_absorbing = PICK(&rm, 0, 0, 1);
		P.m_extra = PICK(&rm, 5, 20);
		if(!P.m_absorbing)
			P.m_pred = PICK(&rm, 0, 3);
		int how = (int)prng_below(&rc, 3);
		if(how == 1)
			P.term_time_q = PICK(&rc, 4, 10, 40, 120);
		if(how == 2) {
			P.stop_at = PICK(&rc, 500, 3000, 10000, 30000);
			P.stop_in_round = PICK(&rc, 0, 1);
		}
	} else if(!strcmp(profile, "c08")) {
		int how = (int)prng_below(&rc, 4);
		P.gvt_period = PICK(&rc, 0, 0, 0, 1, 5, 1000);
		P.m_budget = PICK(&rm, 1, 3, 8, 15);
		if(how == 1)
			P.term_time_q = PICK(&rc, 4, 10, 40);
		if(how >= 2) {
			P.stop_at = PICK(&rc, 1, 200, 1000, 3000, 10000);
			P.stop_in_round = how == 3;
		}
		if(how && prng_below(&rm, 2)) {
			P.m_absorbing = 0;
			P.m_extra = 30;
		}
		if(!how && prng_below(&rm, 2)) {
			/* events never dry up: the predicates are the only way out (GVT never reaches "no event left") */
			P.m_endless = 1;
			P.m_absorbing = 0;
			P.m_fanout = 0;
			P.m_nosend = 0;
			P.m_forward = 0;
			if(P.m_pred > 2)
				P.m_pred = 0;
			/* a thread never runs out of work: a priority-based schedule would starve the others for ever */
			P.policy = PICK(&rs, 0, 0, 2);
			P.p_stay = PICK(&rs, 0, 50, 90);
			if(P.clk_den == 0) /* nor may time stand still while work is done: the reduction timer would never expire */
				P.clk_den = 1;
		}
	} else if(!strcmp(profile, "c10")) {
		P.engine = 4;
		P.serial = 1;
		P.n_threads = 1;
		P.gvt_period = PICK(&rc, 0, 1, 50, 100000);
		int how = (int)prng_below(&rc, 4);
		if(how == 1)
			P.term_time_q = PICK(&rc, 4, 10, 40, 120);
		if(how == 2)
			P.stop_at = PICK(&rc, 10, 100, 1000);
		P.m_absorbing = PICK(&rm, 0, 1, 1);
		P.m_extra = 10;
		P.m_budget = PICK(&rm, 1, 8, 30, 100);
		P.stats = PICK(&rc, 0, 0, 1);
	} else if(!strcmp(profile, "c14")) {
		/* ownership sweep: the run ends at once; the triple is what matters */
		P.m_pred = 0;
		P.m_budget = 0;
		P.m_budget_var = PICK(&rc, 0, 0, 0, 2); /* sometimes nothing ever becomes true: the run ends because no event is left */
		P.m_init_ev = 0;
		P.m_mem = 0;
		P.m_rng = 0;
		P.n_lps = 1 + (int64_t)prng_below(&rc, 40);
		if(prng_below(&rc, 8) == 0)
			P.n_lps = 41 + (int64_t)prng_below(&rc, 23);
		P.n_threads = 1 + (int64_t)prng_below(&rc, 6);
		P.n_ranks = 1 + (int64_t)prng_below(&rc, VERIF_NRANKS);
		if(P.n_lps < P.n_ranks)
			P.n_ranks = P.n_lps;
		P.gvt_period = 0;
		if(prng_below(&rc, 2)) {
			/* half of the triples also route a few events between all LPs */
			P.m_budget = 2;
			P.m_budget_var = 0;
			P.m_init_ev = 1;
			P.m_fanout = 3;
			P.m_dest = 0;
			P.m_absorbing = 1;
		}
	} else if(!strcmp(profile, "c19")) {
		P.m_topo = 1 + (int64_t)prng_below(&rm, 8);
		P.m_topo_w = 1 + (int64_t)prng_below(&rm, 5);
		P.m_topo_h = 1 + (int64_t)prng_below(&rm, 5);
		if(P.m_topo <= 3)
			P.n_lps = P.m_topo_w * P.m_topo_h;
		else
			P.n_lps = 1 + (int64_t)prng_below(&rm, 12);
		P.m_rng = PICK(&rm, 0, 1);
		P.m_budget = PICK(&rm, 3, 8, 15);
	} else if(!strcmp(profile, "c20")) {
		P.stats = 1;
		P.gvt_period = PICK(&rc, 0, 0, 1, 5, 50, 1000, 100000);
		P.tmpfile_fail = PICK(&rc, 0, 0, 0, 0, 0, 0, 1, 2, 3);
		if(prng_below(&rc, 4) == 0) {
			P.stop_at = PICK(&rc, 500, 3000, 10000, 30000);
			P.stop_in_round = PICK(&rc, 0, 1);
		}
		if(prng_below(&rc, 5) == 0)
			P.term_time_q = PICK(&rc, 10, 40, 120);
		if(VERIF_NRANKS > 1 && prng_below(&rc, 3) == 0) {
			/* the other ranks ship their temporary files to rank 0 with blocking sends */
			P.n_ranks = 2 + (int64_t)prng_below(&rc, 2);
			P.n_threads = PICK(&rc, 1, 2, 2, 3);
			if(P.n_lps < P.n_ranks)
				P.n_lps = P.n_ranks + (int64_t)prng_below(&rc, 6);
			P.mpi_delay = PICK(&rs, 0, 10, 200);
			/* a failing tmpfile() on one rank only makes rank 0 wait for ever for that rank's statistics; no property
			 * quantifies over I/O failures, so the fault is injected in single-rank runs only (DESIGN.md 2.5) */
			P.tmpfile_fail = 0;
		}
	} else if(!strcmp(profile, "c02")) {
		P.n_ranks = 2 + (int64_t)prng_below(&rc, VERIF_NRANKS > 1 ? VERIF_NRANKS - 1 : 1);
		P.n_threads = PICK(&rc, 1, 1, 2, 2, 3);
		if(P.n_lps < P.n_ranks)
			P.n_lps = P.n_ranks + (int64_t)prng_below(&rc, 6);
		P.mpi_delay = PICK(&rs, 0, 10, 200, 3000);
		P.mpi_empty_probe = PICK(&rs, 0, 10, 50);
		P.mpi_coll_delay = PICK(&rs, 0, 3, 40);
	} else if(!strcmp(profile, "c08m")) {
		/* shutdown across ranks: natural end, termination time, RootsimStop at a drawn point */
		P.n_ranks = 2 + (int64_t)prng_below(&rc, VERIF_NRANKS > 1 ? VERIF_NRANKS - 1 : 1);
		P.n_threads = PICK(&rc, 1, 2, 2, 3);
		if(P.n_lps < P.n_ranks)
			P.n_lps = P.n_ranks + (int64_t)prng_below(&rc, 6);
		P.gvt_period = PICK(&rc, 0, 0, 0, 1, 5, 1000);
		P.m_budget = PICK(&rm, 1, 3, 8, 15, 30);
		P.mpi_delay = PICK(&rs, 0, 10, 200, 3000);
		P.mpi_empty_probe = PICK(&rs, 0, 10, 50);
		P.mpi_coll_delay = PICK(&rs, 0, 3, 40);
		int how = (int)prng_below(&rc, 4);
		if(how == 1)
			P.term_time_q = PICK(&rc, 4, 10, 40);
		if(how >= 2) {
			P.stop_at = PICK(&rc, 1, 200, 1000, 3000, 10000, 30000);
			P.stop_in_round = how == 3;
		}
		if(how && prng_below(&rm, 2)) {
			P.m_absorbing = 0;
			P.m_extra = 30;
			P.m_pred = PICK(&rm, 0, 3);
		}
	} else if(c09) {
		P.m_rng = PICK(&rm, 1, 2, 2);
		P.n_ranks = 1 + (int64_t)prng_below(&rc, VERIF_NRANKS);
		if(P.n_lps < P.n_ranks)
			P.n_ranks = P.n_lps;
		P.core_binding = PICK(&rc, 0, 1);
		P.mpi_delay = PICK(&rs, 0, 10, 200);
		P.mpi_coll_delay = PICK(&rs, 0, 3);
	} else if(!strcmp(profile, "mm")) {
		P.engine = 1;
		P.u_ops = PICK(&rc, 10, 40, 120, 200);
	} else if(!strcmp(profile, "mq")) {
		P.engine = 2;
		P.u_threads = 2 + (int64_t)prng_below(&rc, 4);
		P.u_ops = PICK(&rc, 5, 20, 40);
	} else if(!strcmp(profile, "bar")) {
		P.engine = 3;
		P.u_threads = 1 + (int64_t)prng_below(&rc, 7); /* "for all thread counts": one thread is its own leader */
		if(P.u_threads > 6)
			P.u_threads = 2;
		P.u_ops = 1 + (int64_t)prng_below(&rc, 40);
		if(prng_below(&rc, 160) == 0) {
			/* "reused indefinitely": more crossings than fit a 16-bit counter, with two threads to keep it cheap */
			P.u_threads = 2;
			P.u_ops = 66000 + (int64_t)prng_below(&rc, 3000);
			P.max_sps = 30000000;
			/* a spinning thread burns steps until it is descheduled: only a round-robin schedule bounds the cost of a crossing */
			P.policy = 2;
			P.rr_q = 1 + (int64_t)prng_below(&rc, 5);
			P.stall_rate = 0;
		}
	} else {
		fprintf(stderr, "unknown profile %s\n", profile);
		exit(2);
	}
	if(P.n_ranks > VERIF_NRANKS)
		P.n_ranks = VERIF_NRANKS;
}

/* ------------------------------------------------------------------ one run in a forked child */
/* What the code under test finds in never-written stack slots must not depend on how this process was started (argument
 * strings, depth of the worker loop): a core function that reads an uninitialised local would otherwise behave differently in
 * the worker and in a replay.  Everything between this call and the first core function is the same in every invocation. */
static __attribute__((noinline)) void scrub_stack(void)
{
	volatile char pad[768 * 1024];
	memset((void *)pad, 0, sizeof(pad));
	__asm__ volatile("" ::"r"(pad) : "memory");
}

static void child_run(int wfd, const char *replay_out)
{
	scrub_stack();
	g_result_fd = wfd;
	g_replay_out = replay_out;
	bool had_trace = G.have_trace;
	bool replay = G.replay;
	sim_init_run();
	G.have_trace = had_trace;
	G.replay = replay;
	switch(P.engine) {
		case 0:
		case 4:
		case 5:
			tw_run();
			break;
		case 1:
			mm_run();
			break;
		case 2:
			mq_run();
			break;
		case 3:
			bar_run();
			break;
		default:
			fprintf(stderr, "bad engine\n");
			_exit(3);
	}
	sim_finish("ok");
}

static char errpath[300];

static int run_forked(const char *replay_out, char *out, size_t outsz, int timeout_s)
{
	int pfd[2];
	if(pipe(pfd))
		return -1;
	fflush(stdout);
	pid_t pid = fork();
	if(pid == 0) {
		close(pfd[0]);
		int efd = g_verbose ? -1 : open(errpath, O_WRONLY | O_CREAT | O_TRUNC, 0644);
		if(efd >= 0) {
			dup2(efd, 2);
			close(efd);
		}
		child_run(pfd[1], replay_out);
		_exit(0);
	}
	close(pfd[1]);
	size_t n = 0;
	time_t t0 = time(NULL);
	bool timed_out = false;
	for(;;) {
		struct pollfd p = {pfd[0], POLLIN, 0};
		int pr = poll(&p, 1, 1000);
		if(pr > 0) {
			ssize_t k = read(pfd[0], out + n, outsz - 1 - n);
			if(k <= 0)
				break;
			n += (size_t)k;
			if(n >= outsz - 1)
				break;
		} else if(time(NULL) - t0 > timeout_s) {
			kill(pid, SIGKILL);
			timed_out = true;
			break;
		}
	}
	close(pfd[0]);
	out[n] = 0;
	int st = 0;
	waitpid(pid, &st, 0);
	if(n && !strncmp(out, "RES ", 4))
		return 0;
	/* the child died without a verdict */
	char head[700] = "";
	FILE *ef = fopen(errpath, "r");
	if(ef) {
		size_t k = fread(head, 1, sizeof(head) - 1, ef);
		head[k] = 0;
		fclose(ef);
		for(char *c = head; *c; c++)
			if(*c == '\n' || *c == '"' || *c == '\r')
				*c = ' ';
	}
	const char *cls = "crash";
	char clsb[64];
	if(timed_out)
		cls = "wall-timeout";
	else if(WIFEXITED(st) && WEXITSTATUS(st) == 77)
		cls = "sanitizer";
	else if(WIFSIGNALED(st)) {
		snprintf(clsb, sizeof(clsb), "signal-%d", WTERMSIG(st));
		cls = clsb;
	} else if(WIFEXITED(st)) {
		snprintf(clsb, sizeof(clsb), "exit-%d", WEXITSTATUS(st));
		cls = clsb;
	}
	/* classify sanitizer reports by their kind so that signatures are comparable */
	char kind[96] = "";
	const char *k1 = strstr(head, "AddressSanitizer: ");
	const char *k2 = strstr(head, "runtime error: ");
	if(k1)
		sscanf(k1 + 18, "%80[^ ]", kind);
	else if(k2)
		snprintf(kind, sizeof(kind), "ubsan");
	snprintf(out, outsz, "RES seed=%lld status=%s prop=C11 cls=%s%s%s hash=0 msg=\"%s\" note=\"\"\n", (long long)P.seed,
	    timed_out ? "timeout" : "crash", cls, kind[0] ? ":" : "", kind, head);
	if(replay_out)
		replay_write(replay_out, out);
	return 0;
}

static void apply_sets(int argc, char **argv)
{
	for(int i = 0; i < argc; i++) {
		if(strcmp(argv[i], "--set") || i + 1 >= argc)
			continue;
		char key[64];
		long long v;
		if(sscanf(argv[i + 1], "%63[^=]=%lld", key, &v) == 2) {
#define X(n, d)                                                                                                        \
	if(!strcmp(key, #n))                                                                                           \
		P.n = v;
			PARAM_LIST(X)
#undef X
		}
	}
}

static const char *arg_val(int argc, char **argv, const char *name, const char *def)
{
	for(int i = 0; i + 1 < argc; i++)
		if(!strcmp(argv[i], name))
			return argv[i + 1];
	return def;
}
static bool arg_flag(int argc, char **argv, const char *name)
{
	for(int i = 0; i < argc; i++)
		if(!strcmp(argv[i], name))
			return true;
	return false;
}

int main(int argc, char **argv)
{
	if(argc < 2) {
		fprintf(stderr, "usage: sim worker|run ...\n");
		return 2;
	}
	/* identical address space in every process: heap addresses order the allocator's arenas */
	if(!getenv("VERIF_NOASLR_DONE") && !(personality(0xffffffff) & ADDR_NO_RANDOMIZE)) {
		personality(personality(0xffffffff) | ADDR_NO_RANDOMIZE);
		setenv("VERIF_NOASLR_DONE", "1", 1);
		execv("/proc/self/exe", argv);
	}
	mkdir("/verif/.work", 0755);
	g_verbose = getenv("VERIF_VERBOSE") != NULL;
	const char *wid = arg_val(argc, argv, "--wid", "0");
	snprintf(errpath, sizeof(errpath), "/verif/.work/err_%s_%d.txt", wid, (int)getpid());
	int pin = atoi(arg_val(argc, argv, "--pin", "-1"));
	if(pin >= 0) {
		cpu_set_t cs;
		CPU_ZERO(&cs);
		CPU_SET(pin, &cs);
		sched_setaffinity(0, sizeof(cs), &cs);
	}
	sim_symbols_load();
	g_pcmap = mmap(NULL, 65536, PROT_READ | PROT_WRITE, MAP_SHARED | MAP_ANONYMOUS, -1, 0);
	static char out[16384];
	int timeout_s = atoi(arg_val(argc, argv, "--timeout", "90"));

	if(!strcmp(argv[1], "worker")) {
		const char *profile = arg_val(argc, argv, "--profile", "tw");
		uint64_t seed = strtoull(arg_val(argc, argv, "--seed", "1"), NULL, 0);
		long start = atol(arg_val(argc, argv, "--start", "0"));
		long count = atol(arg_val(argc, argv, "--count", "1"));
		long stride = atol(arg_val(argc, argv, "--stride", "1"));
		double budget_s = atof(arg_val(argc, argv, "--seconds", "0"));
		const char *vdir = arg_val(argc, argv, "--violdir", NULL);
		struct timespec t0, t1;
		clock_gettime(CLOCK_MONOTONIC, &t0);
		for(long k = 0; k < count; k++) {
			long idx = start + k * stride;
			gen_params(profile, seed, idx);
			apply_sets(argc, argv);
			char rp[400];
			rp[0] = 0;
			if(vdir)
				snprintf(rp, sizeof(rp), "%s/%s_%llu_%ld.replay", vdir, profile, (unsigned long long)seed, idx);
			G.replay = false;
			G.have_trace = false;
			run_forked(vdir ? rp : NULL, out, sizeof(out), timeout_s);
			printf("IDX %ld %s", idx, out);
			fflush(stdout);
			if(budget_s > 0) {
				clock_gettime(CLOCK_MONOTONIC, &t1);
				if((t1.tv_sec - t0.tv_sec) + (t1.tv_nsec - t0.tv_nsec) * 1e-9 > budget_s)
					break;
			}
		}
		const char *pcf = arg_val(argc, argv, "--pcmap", NULL);
		if(pcf) {
			FILE *f = fopen(pcf, "wb");
			if(f) {
				fwrite(g_pcmap, 1, 65536, f);
				fclose(f);
			}
		}
		unlink(errpath);
		return 0;
	}
	if(!strcmp(argv[1], "run")) {
		/* one run: from a seed (--profile/--seed/--idx) or from a replay file (--replay) */
		const char *rf = arg_val(argc, argv, "--replay", NULL);
		if(rf) {
			params_default();
			if(replay_load(rf)) {
				fprintf(stderr, "cannot read %s\n", rf);
				return 2;
			}
			G.replay = G.have_trace && !arg_flag(argc, argv, "--notrace");
		} else {
			uint64_t seed = strtoull(arg_val(argc, argv, "--seed", "1"), NULL, 0);
			long idx = atol(arg_val(argc, argv, "--idx", "0"));
			gen_params(arg_val(argc, argv, "--profile", "tw"), seed, idx);
		}
		apply_sets(argc, argv);
		if(arg_flag(argc, argv, "--print-params")) {
#define X(n, d) printf("p %s %lld\n", #n, (long long)P.n);
			PARAM_LIST(X)
#undef X
			return 0;
		}
		const char *oa = arg_val(argc, argv, "--out-always", NULL);
		if(oa) {
			G.didx = 0;
			replay_write(oa, NULL); /* parameters only: the decisions are re-drawn from dseed */
		}
		run_forked(arg_val(argc, argv, "--out", NULL), out, sizeof(out), timeout_s);
		fputs(out, stdout);
		unlink(errpath);
		return strstr(out, "status=ok") ? 0 : 1;
	}
	fprintf(stderr, "unknown command %s\n", argv[1]);
	return 2;
}
